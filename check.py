#!/usr/bin/env python
"""
Entry point of every registered check:  check.py <PROPERTY> [--tier quick|thorough] | --replay FILE

VERIF_TIER / VERIF_SEED are honoured.  See DESIGN.md and vlib/driver.py.
"""
import argparse
import importlib
import os
import sys

sys.path.insert(0, os.path.dirname(os.path.abspath(__file__)))
sys.dont_write_bytecode = True

from vlib import driver  # noqa: E402


def main():
    ap = argparse.ArgumentParser()
    ap.add_argument('property', nargs='?')
    ap.add_argument('--tier', default=os.environ.get('VERIF_TIER') or 'quick', choices=['quick', 'thorough'])
    ap.add_argument('--replay')
    ap.add_argument('--only', help='substring filter on job names (debugging)')
    ns = ap.parse_args()
    if ns.replay:
        return driver.replay_file(ns.replay)
    pid = ns.property.upper()
    try:
        seed = int(os.environ.get('VERIF_SEED', '0') or 0)
    except ValueError:
        seed = 0
    mod = importlib.import_module('props.' + pid.lower())
    jobs = mod.jobs(ns.tier, seed)
    if ns.only:
        jobs = [j for j in jobs if ns.only in j.name]
    return driver.run_property(pid, mod.META, jobs, ns.tier, seed,
                               extra_conformance=getattr(mod, 'CONFORMANCE', None),
                               needs_model=getattr(mod, 'NEEDS_MODEL', True))


if __name__ == '__main__':
    sys.exit(main())
