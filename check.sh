#!/bin/sh
# usage: ./check.sh <PROPERTY> [quick|thorough]    |   ./check.sh --replay <file>
cd "$(dirname "$0")"
./setup.sh >&2 || exit 3
if [ "$1" = "--replay" ]; then exec .venv/bin/python check.py --replay "$2"; fi
exec .venv/bin/python check.py "$1" --tier "${2:-${VERIF_TIER:-quick}}"
