"""
C01 - decoding yields exactly the values FM-94 assigns to the bit stream.

Real code executed: Decoder.process_template_data -> Coder.process_* / CoderState /
Decoder.process_*_{un,}compressed / BitReader.read_uint_or_none /
BitStringBitReader.*, descriptor __str__.  Every payload bit is a solver variable;
the oracle is the independent FM-94 reference (vlib/fm94.py) reading the same bits.
"""
from vlib import pbk, fm94, families


def prepare(params):
    fm94.load_tables()
    pbk.warm_tables()
    pbk.decoder()
    pbk.decoder(compiled=10)


def h_decode(ctx):
    p = ctx.params
    fam = families.by_name(p['family']) if 'family' in p else p
    ids = fam['ids']
    n_subsets = p.get('n_subsets', 1)
    compressed = p.get('compressed', False)
    opts = {}
    if p.get('strings') == 'alphabet':
        opts['string_alphabet'] = p.get('alphabet', [0x00, 0x41, 0xff])
    src = ctx.source('S', p.get('nbits', 512), **opts)
    try:
        ref = fm94.reference_decode(ctx, ids, src, n_subsets=n_subsets, compressed=compressed,
                                    max_factor=p.get('max_factor', fam.get('max_factor', 2)),
                                    max_diff_width=p.get('max_diff_width', 4),
                                    no_missing=p.get('no_missing', fam.get('no_missing', False)))
        malformed = None
    except fm94.RefMalformed as e:
        ref, malformed = None, e
    if ref is None:
        # outside the property's domain (malformed input): nothing is demanded of the decoder
        ctx.witness('malformed:' + str(malformed)[:60])
        return None
    try:
        td, pos, _ = pbk.decode_template_data(ctx, ids, src, n_subsets=n_subsets, compressed=compressed,
                                              compiled=p.get('compiled'))
    except Exception as e:
        return {'what': 'decoder raised on a well-formed stream', 'exc': repr(e)[:300]}
    ctx.witness('decoded')
    for s in range(n_subsets):
        d = fm94.compare_subset(pbk.labels(td.decoded_descriptors_all_subsets[s]), td.decoded_values_all_subsets[s],
                                td.bitmap_links_all_subsets[s], ref.outs[s])
        if d:
            d['subset'] = s
            return d
    if pos != ref.pos:
        return {'what': 'end position', 'got': pos, 'exp': ref.pos}
    return None
