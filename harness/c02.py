"""
C02 - encoding produces the canonical FM-94 bit stream for the given values.

Every conforming value list is the FM-94 reading V = ref(B) of some bit stream B
(all bits solver variables).  Uncompressed: the real encoder applied to V must
reproduce B bit for bit ("byte-identical to an independently constructed one":
the independent construction *is* B).  Compressed: the emitted columns must
parse, by the independent reference, back to exactly V with the canonical
column shape (width 0 iff all subsets agree, all-ones difference iff missing,
minimum + difference = raw value).

Real code executed: Encoder.process_template_data -> Coder.process_* /
Encoder.process_*_{un,}compressed / nbits_for_uint /
_next_compressed_values_and_status_from_all_subsets / BitStringBitWriter.*.
"""
from vlib import pbk, fm94, families, symcore as sc


def prepare(params):
    fm94.load_tables()
    pbk.warm_tables()
    pbk.encoder()
    pbk.encoder(compiled=10)


def _reference_values(ctx, p, fam, src):
    return fm94.reference_decode(ctx, fam['ids'], src, n_subsets=p.get('n_subsets', 1),
                                 compressed=p.get('compressed', False),
                                 max_factor=p.get('max_factor', fam.get('max_factor', 2)),
                                 max_diff_width=p.get('max_diff_width', 2),
                                 no_missing=p.get('no_missing', fam.get('no_missing', False)), canonical_only=True)


def h_encode(ctx):
    p = ctx.params
    fam = families.by_name(p['family']) if 'family' in p else p
    ids = fam['ids']
    n_subsets = p.get('n_subsets', 1)
    compressed = p.get('compressed', False)
    opts = {}
    if p.get('strings') == 'alphabet':
        opts['string_alphabet'] = p.get('alphabet', [0x00, 0x41, 0xff])
    src = ctx.source('S', p.get('nbits', 512), **opts)
    try:
        ref = _reference_values(ctx, p, fam, src)
    except fm94.RefMalformed as e:
        ctx.witness('malformed:' + str(e)[:50])
        return None
    values = [[it.value for it in out.items] for out in ref.outs]
    ctx.note('values', values)
    try:
        writer, td, _ = pbk.encode_template_data(ctx, ids, [list(v) for v in values], n_subsets=n_subsets,
                                                 compressed=compressed, compiled=p.get('compiled'))
    except Exception as e:
        return {'what': 'encoder refused a conforming value list', 'exc': repr(e)[:300]}
    ctx.witness('encoded')
    # labels and links of the encoder's own template data
    for s in range(n_subsets):
        exp_labels = [it.label for it in ref.outs[s].items]
        got_labels = pbk.labels(td.decoded_descriptors_all_subsets[s])
        if got_labels != exp_labels:
            return {'what': 'labels', 'subset': s, 'got': got_labels, 'exp': exp_labels}
        if dict(td.bitmap_links_all_subsets[s]) != ref.outs[s].links:
            return {'what': 'links', 'subset': s, 'got': {str(k): v for k, v in td.bitmap_links_all_subsets[s].items()},
                    'exp': {str(k): v for k, v in ref.outs[s].links.items()}}
    if not compressed:
        # bit-for-bit the stream the values were read from
        if writer.get_pos() != ref.pos:
            return {'what': 'length', 'got': writer.get_pos(), 'exp': ref.pos}
        if ctx.mode == 'explore':
            pos = 0
            for n, val in ctx.written_fields(writer):
                exp = src.peek(pos, n)
                if not (val == exp):
                    return {'what': 'field', 'pos': pos, 'nbits': n, 'got': val, 'exp': exp}
                pos += n
        else:
            got = ctx.written_bits(writer)
            exp = [src.peek(k, 1) for k in range(ref.pos)]
            if got != exp:
                k = [i for i, (a, b) in enumerate(zip(got, exp)) if a != b][0]
                return {'what': 'field', 'pos': k, 'got': got[k], 'exp': exp[k]}
        return None
    # compressed: relational check through the independent reader
    out = ctx.source_of_written('W', writer, **opts)
    try:
        ref2 = fm94.reference_decode(ctx, ids, out, n_subsets=n_subsets, compressed=True,
                                     max_factor=64, max_diff_width=64)
    except fm94.RefMalformed as e:
        return {'what': 'encoder output is not a well-formed compressed data section', 'why': str(e)}
    if ref2.pos != writer.get_pos():
        return {'what': 'length', 'got': writer.get_pos(), 'exp': ref2.pos}
    for s in range(n_subsets):
        items2 = ref2.outs[s].items
        if len(items2) != len(values[s]):
            return {'what': 'count', 'subset': s}
        for i, (it, v) in enumerate(zip(items2, values[s])):
            if not fm94.same(it.value, v):
                return {'what': 'value read back', 'subset': s, 'index': i, 'label': it.label, 'got': it.value, 'exp': v}
    # canonical column shape
    for ci, (kind, n, mn, w, diffs) in enumerate(ref2.columns):
        if kind == 'uint':
            if w == 0:
                continue
            # width > 0: not all equal, all-ones difference only for missing entries, minimum attained
            raws = []
            for d in diffs:
                if d == (1 << w) - 1:
                    raws.append(None)
                else:
                    raws.append(d)
            present = [r for r in raws if r is not None]
            if not present:
                return {'what': 'column of missing entries written with differences', 'column': ci}
            if len(present) == len(raws) and all(bool(r == present[0]) for r in present):
                return {'what': 'identical entries written with a non-zero difference width', 'column': ci, 'w': w}
            if not any(bool(r == 0) for r in present):
                return {'what': 'minimum is not the smallest entry', 'column': ci}
        else:
            if w != 0 and w != n:
                return {'what': 'character difference width must be the field width', 'column': ci, 'w': w}
    ctx.witness('compressed-checked')
    return None


def h_encode_strings(ctx):
    """User strings shorter / longer than the field, str or bytes, and a missing string (None)."""
    ids = [11]   # 000011: 16-bit character field
    kind = ctx.choice('kind', 3)   # 0 bytes, 1 text, 2 None
    alphabet = b' A\xe9\x00'
    if kind == 2:
        value, exp = None, b'\xff\xff'
    else:
        ln = ctx.choice('len', 4)
        raw = bytes(alphabet[ctx.choice('c%d' % i, len(alphabet))] for i in range(ln))
        value = raw.decode('latin-1') if kind == 1 else raw
        exp = (raw + b'  ')[:2]
    compressed = ctx.params.get('compressed', False)
    n_subsets = 2 if compressed else 1
    try:
        writer, td, _ = pbk.encode_template_data(ctx, ids, [[value]] * n_subsets, n_subsets=n_subsets, compressed=compressed)
    except Exception as e:
        return {'what': 'encoder refused a string value', 'value': repr(value), 'exc': repr(e)[:200]}
    bits = ctx.written_bits(writer)
    exp_bits = [(b >> (7 - k)) & 1 for b in exp for k in range(8)]
    if compressed:
        exp_bits = exp_bits + [0] * 6
    if [int(b) for b in bits] != exp_bits:
        return {'what': 'string field', 'value': repr(value), 'got': ''.join(str(int(b)) for b in bits), 'exp': ''.join(map(str, exp_bits))}
    ctx.witness('strings')
    return None


def h_unexpanded(ctx):
    """Section 3 descriptor list packing: F (2 bits) X (6 bits) Y (8 bits)."""
    from pybufrkit.bufr import SectionParameter
    n = 1 + ctx.choice('n', 3)
    ids, terms = [], []
    for i in range(n):
        f = ctx.int('f%d' % i, 0, 3)
        x = ctx.int('x%d' % i, 0, 63)
        y = ctx.int('y%d' % i, 0, 255)
        ids.append(f * 100000 + x * 1000 + y)
        terms.append((f, x, y))
    w = ctx.writer()
    pbk.encoder().process_unexpanded_descriptors(w, SectionParameter('unexpanded_descriptors', 0, 'unexpanded_descriptors', None, True, ids))
    if w.get_pos() != 16 * n:
        return {'what': 'length', 'got': w.get_pos()}
    r = ctx.reader(ctx.source_of_written('W', w))
    for f, x, y in terms:
        if not (r.read_uint(2) == f and r.read_uint(6) == x and r.read_uint(8) == y):
            return {'what': 'FXY packing', 'fxy': [f, x, y]}
    ctx.witness('packed')
    return None
