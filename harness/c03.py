"""
C03 - decode/encode round trip: range refusal and canonical fixpoint (E1 part).
The quantisation bound (IEEE-754) is the E2 part: vlib/e2.py.

Real code executed: Encoder.process_template_data and Decoder.process_template_data
with everything below them, renderer.FlatJsonRenderer._render_template_data.
"""
from vlib import pbk, fm94, families, symcore as sc

REFUSAL_TEMPLATES = {
    'int7': [1001], 'int12ref': [4015], 'scaled12': [12001], 'negscale': [10061], 'ref5': [2129], 'onebit': [31000],
    'w201': [201130, 12001], 'w201-shrink': [201126, 12001], 's202': [202129, 4015], 'inc207': [207001, 10061],
    'newref203': [203008, 2129, 203255, 2129], 'diff225': [1001, 225000, 101001, 31031, 8024, 225255],
    'code4': [20011],
}


def prepare(params):
    fm94.load_tables()
    pbk.warm_tables()
    pbk.encoder()
    pbk.decoder()


class _ZeroBits(object):
    def peek(self, pos, n):
        return 0

    def peek_bytes(self, pos, n):
        return b'\0' * n


class _PlainCtx(object):
    def concrete(self, x, lo, hi):
        return x

    def assume(self, c):
        pass


def h_refusal(ctx):
    """A numeric value whose scaled integer does not fit is refused, never wrapped or clipped (uncompressed)."""
    ids = REFUSAL_TEMPLATES[ctx.params['template']]
    # structure and coding parameters from the reference, on an all-zero stream
    shape = fm94.reference_decode(_PlainCtx(), ids, _ZeroBits())
    items = shape.outs[0].items
    values = [it.value for it in items]
    if 'target_index' in ctx.params:
        target = ctx.params['target_index']
    else:
        # the first field that is not a structure field (replication factor / bitmap bit)
        target = [k for k, it in enumerate(items) if it.enc is not None and
                  not (len(items) > 1 and it.eid in (31000, 31001, 31002, 31031))][0]
    n, r, den = items[target].enc
    span = 1 << n
    num = ctx.int('num', r - span - 3, r + 2 * span + 3)    # inside, on and far beyond the range
    v = sc.scaled(num, den) if den != 1 else num
    values[target] = v
    ctx.note('value', v)
    raw = num - r
    fits = bool(0 <= raw) and bool(raw < span)
    try:
        writer, td, _ = pbk.encode_template_data(ctx, ids, [values])
    except Exception as e:
        if fits:
            return {'what': 'encoder refused a value that fits its field', 'num': num, 'n': n, 'ref': r, 'exc': repr(e)[:200]}
        ctx.witness('refused')
        return None
    if not fits:
        return {'what': 'out-of-range value was written (wrapped or clipped) instead of refused', 'num': num, 'n': n, 'ref': r,
                'bits': ctx.written_bits(writer)}
    # it fits: the independent reader gets exactly the value back (all ones = missing is the stated exception)
    back = fm94.reference_decode(ctx, ids, ctx.source_of_written('W', writer))
    got = back.outs[0].items[target].value
    if n > 1 and bool(raw == span - 1):
        if got is not None:
            return {'what': 'all-ones value did not read back as missing', 'num': num}
        ctx.witness('coincides-with-missing')
        return None
    if not fm94.same(got, v):
        return {'what': 'value altered by the round trip', 'num': num, 'got': got}
    if back.pos != writer.get_pos():
        return {'what': 'length', 'got': writer.get_pos(), 'exp': back.pos}
    ctx.witness('written')
    return None


def h_fixpoint(ctx):
    """decode -> encode -> decode -> encode: the second round trip reproduces the first bit for bit."""
    from pybufrkit.renderer import FlatJsonRenderer
    p = ctx.params
    fam = families.by_name(p['family'])
    ids = fam['ids']
    n_subsets = p.get('n_subsets', 1)
    compressed = p.get('compressed', False)
    opts = {}
    if p.get('strings') == 'alphabet':
        opts['string_alphabet'] = p.get('alphabet', [0x00, 0x41, 0xff])
    src = ctx.source('S', p.get('nbits', 512), **opts)
    try:
        ref = fm94.reference_decode(ctx, ids, src, n_subsets=n_subsets, compressed=compressed, in_range=True,
                              max_factor=p.get('max_factor', fam.get('max_factor', 2)),
                              max_diff_width=p.get('max_diff_width', 2),
                              no_missing=p.get('no_missing', fam.get('no_missing', False)))
    except fm94.RefMalformed as e:
        ctx.witness('malformed')
        return None
    try:
        td0, _, _ = pbk.decode_template_data(ctx, ids, src, n_subsets=n_subsets, compressed=compressed)
    except Exception as e:
        return None   # C01's subject
    rnd = FlatJsonRenderer()
    v0 = rnd._render_template_data(td0)
    try:
        w1, _, _ = pbk.encode_template_data(ctx, ids, [list(v) for v in v0], n_subsets=n_subsets, compressed=compressed)
    except Exception:
        # a foreign stream may hold values no canonical field can carry (compressed overflow): no first round trip
        ctx.witness('first-encode-refused')
        return None
    ctx.witness('first-round')
    try:
        td1, _, _ = pbk.decode_template_data(ctx, ids, ctx.source_of_written('W1', w1, **opts), n_subsets=n_subsets,
                                             compressed=compressed)
    except Exception as e:
        return {'what': 'the encoder output does not decode', 'exc': repr(e)[:200]}
    v1 = rnd._render_template_data(td1)
    for s in range(n_subsets):
        if len(v1[s]) != len(v0[s]):
            return {'what': 'value count changed', 'subset': s}
        for i, (a, b) in enumerate(zip(v0[s], v1[s])):
            if fm94.same(a, b):
                continue
            it = ref.outs[s].items[i]
            if b is None and a is not None and it.enc is not None:
                # the stated exception: a value that coincides with its field's all-ones pattern is "missing"
                n, r, den = it.enc
                num = a.num if isinstance(a, sc.Quot) else (a if den == 1 else None)
                if num is not None and bool(num - r == (1 << n) - 1):
                    ctx.witness('coincides-with-missing')
                    continue
            if isinstance(a, (bytes, sc.SymSeq)) and isinstance(b, (bytes, sc.SymSeq)):
                # documented: strings are space-padded or truncated to the field width
                if fm94.same((a + b' ' * len(b))[:len(b)], b):
                    continue
            return {'what': 'decoded value altered by a round trip', 'subset': s, 'index': i, 'before': a, 'after': b}
    try:
        w2, _, _ = pbk.encode_template_data(ctx, ids, [list(v) for v in v1], n_subsets=n_subsets, compressed=compressed)
    except Exception as e:
        return {'what': 'second encode refused what the first produced', 'exc': repr(e)[:200]}
    f1, f2 = ctx.written_fields(w1), ctx.written_fields(w2)
    if len(f1) != len(f2):
        return {'what': 'second round trip differs in field structure', 'n1': len(f1), 'n2': len(f2)}
    for k, (a, b) in enumerate(zip(f1, f2)):
        if ctx.mode == 'explore':
            if a[0] != b[0] or not (a[1] == b[1]):
                return {'what': 'second round trip differs', 'field': k, 'first': a, 'second': b}
        elif a != b:
            return {'what': 'second round trip differs', 'bit': k}
    ctx.witness('fixpoint')
    return None


def h_compressed_unaltered(ctx):
    """
    Compressed data: n subsets of one numeric field, every value an unconstrained solver integer (inside, on and beyond the
    field's range) or missing.  Either the encoder refuses, or every value reads back exactly - the sole exception being a
    value that coincides with the all-ones pattern of its field (missing).  "Never silently alters data."
    """
    ids = REFUSAL_TEMPLATES[ctx.params['template']]
    n_subsets = ctx.params.get('n_subsets', 2)
    shape = fm94.reference_decode(_PlainCtx(), ids, _ZeroBits())
    items = shape.outs[0].items
    target = [k for k, it in enumerate(items) if it.enc is not None and
              not (len(items) > 1 and it.eid in (31000, 31001, 31002, 31031))][0]
    n, r, den = items[target].enc
    span = 1 << n
    values_all, nums = [], []
    for s in range(n_subsets):
        vals = [it.value for it in items]
        if ctx.params.get('with_missing') and ctx.choice('missing%d' % s, 2):
            vals[target] = None
            nums.append(None)
        else:
            num = ctx.int('num%d' % s, r - 3, r + 2 * span + 3)
            vals[target] = sc.scaled(num, den) if den != 1 else num
            nums.append(num)
        values_all.append(vals)
    ctx.note('values', [v[target] for v in values_all])
    try:
        writer, td, _ = pbk.encode_template_data(ctx, ids, values_all, n_subsets=n_subsets, compressed=True)
    except Exception:
        # a value equal to the all-ones pattern (FM-94: missing) may be refused next to other values: only values strictly
        # inside the representable range must be accepted
        if all(x is None or (bool(0 <= x - r) and bool(x - r < (span - 1 if n > 1 else span))) for x in nums):
            return {'what': 'compressed encoding refused values that all fit the field', 'nums': nums, 'n': n, 'ref': r}
        ctx.witness('refused')
        return None
    try:
        back = fm94.reference_decode(ctx, ids, ctx.source_of_written('W', writer), n_subsets=n_subsets, compressed=True,
                                     max_factor=64, max_diff_width=64)
    except fm94.RefMalformed as e:
        return {'what': 'encoder output is not a well-formed compressed data section', 'why': str(e), 'nums': nums}
    for s in range(n_subsets):
        got = back.outs[s].items[target].value
        x = nums[s]
        if x is None:
            if got is not None:
                return {'what': 'missing did not read back as missing', 'subset': s, 'got': got}
            continue
        if n > 1 and bool(x - r == span - 1):
            if got is not None and not fm94.same(got, values_all[s][target]):
                return {'what': 'value altered by the compressed round trip', 'subset': s, 'num': x, 'got': got}
            continue       # coincides with the all-ones pattern: missing (or, carried exactly through a wider increment)
        if not fm94.same(got, values_all[s][target]):
            return {'what': 'value silently altered by the compressed round trip', 'subset': s, 'num': x, 'got': got, 'n': n, 'ref': r,
                    'nums': nums}
    ctx.witness('unaltered')
    return None
