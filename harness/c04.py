"""
C04 - section framing and length accounting are exact in both directions.

Real code executed: Encoder.process / process_section (padding, length back-patch through
BitStringBitWriter.set_uint, honoured declared lengths), Decoder.process / process_section /
process_unexpanded_descriptors, SectionConfigurer.configure_section(_with_values), the real bitops
classes over the bitstring model.  The data section's content is driven directly (drive the unit):
process_template_data is overridden to write / read ``n`` opaque solver bits, so the data section's
bit length is a harness variable.

Oracle: FM-94 section layouts written out here (octet counts per edition), not read from
pybufrkit/definitions; extent = ceil(bits / 8), rounded up to even for editions <= 3.
"""
from vlib import symcore as sc

# FM-94 section 1 extents in octets (content, no padding), per edition
S1_OCTETS = {2: 18, 3: 18, 4: 22}


def prepare(params):
    _coders(params.get('honour', False))


_CACHE = {}


def _coders(honour):
    key = bool(honour)
    if key in _CACHE:
        return _CACHE[key]
    from pybufrkit.encoder import Encoder
    from pybufrkit.decoder import Decoder

    class FrameEncoder(Encoder):
        """The data section's content is n opaque bits supplied by the harness as (value, n) chunks."""

        def process_template_data(self, bufr_message, bit_writer, section_parameter):
            for value, nbits in section_parameter.value:
                bit_writer.write_uint(value, nbits)

    class FrameDecoder(Decoder):
        n_data_bits = 0

        def process_template_data(self, bufr_message, bit_reader):
            out, n = [], self.n_data_bits
            while n > 0:
                k = min(n, 24)
                out.append((bit_reader.read_uint(k), k))
                n -= k
            return out

    _CACHE[key] = (FrameEncoder(ignore_declared_length=not honour), FrameDecoder())
    return _CACHE[key]


def extent(bits, edition):
    octets = (bits + 7) // 8
    if edition <= 3 and octets % 2:
        octets += 1
    return octets


def _section1_values(ctx, edition, sec2, length):
    c = lambda name, hi: ctx.int(name, 0, hi)   # noqa: E731
    if edition == 4:
        return [length, 0, c('centre', 65535), c('subcentre', 65535), c('upd', 255), sec2, '0000000', c('cat', 255),
                c('isub', 255), c('lsub', 255), c('mtv', 255), c('ltv', 255), c('year', 65535), 1, 2, 3, 4, 5]
    if edition == 3:
        return [length, 0, c('subcentre', 255), c('centre', 255), c('upd', 255), sec2, '0000000', c('cat', 255),
                c('lsub', 255), c('mtv', 255), c('ltv', 255), c('year', 255), 1, 2, 3, 4, 5]
    return [length, 0, c('centre', 65535), c('upd', 255), sec2, '0000000', c('cat', 255),
            c('lsub', 255), c('mtv', 255), c('ltv', 255), c('year', 255), 1, 2, 3, 4, 5]


def _chunks(ctx, n):
    """n opaque data bits as chunks of <= 24 solver bits."""
    out, k = [], 0
    while n > 0:
        w = min(n, 24)
        out.append((ctx.int('d%d' % k, 0, (1 << w) - 1), w))
        n -= w
        k += 1
    return out


def _plan(ctx, p):
    """The scenario: structure sizes and (honour mode) the declared lengths."""
    edition, sec2 = p['edition'], bool(p.get('sec2'))
    n = ctx.choice('n_data_bits', p.get('max_bits', 17) + 1)
    ndesc = 1 + (ctx.choice('n_desc', 2) if p.get('vary_desc') else n % 2)
    k2 = ctx.choice('sec2_octets', p.get('max_sec2', 1) + 1) if sec2 else 0
    content = {1: S1_OCTETS[edition] * 8, 3: (7 + 2 * ndesc) * 8, 4: 32 + n}
    if sec2:
        content[2] = (4 + k2) * 8
    return edition, sec2, n, ndesc, k2, content


def h_encode(ctx):
    from pybufrkit.errors import PyBufrKitError
    p = ctx.params
    honour = bool(p.get('honour'))
    edition, sec2, n, ndesc, k2, content = _plan(ctx, p)
    natural = {s: extent(b, edition) for s, b in content.items()}
    declared = dict.fromkeys(natural, 0)
    exp_len = dict(natural)
    refused = False
    total_decl = 0
    if honour:
        # one solver-chosen section deviates from its natural extent by delta octets; the others either
        # declare their natural extent or 0 ("compute it")
        secs = sorted(natural)
        dev = ctx.choice('deviating', len(secs) + 1)
        deltas = p.get('deltas', [-2, -1, 1, 2, 3])
        delta = deltas[ctx.choice('delta', len(deltas))]
        others_zero = ctx.bool('others_zero')
        for i, s in enumerate(secs):
            if i == dev:
                declared[s] = natural[s] + delta
                if declared[s] <= 0:
                    ctx.assume(False)
                if delta < 0:
                    refused = True
                exp_len[s] = declared[s]
            elif others_zero:
                declared[s] = 0
            else:
                declared[s] = natural[s]
        # total: 0 = compute, 1 = exact, 2 = off by one (the last only when no section deviates)
        mode = ctx.choice('total_mode', 3 if dev == len(secs) else 2)
    else:
        # recompute mode: whatever the JSON declares is ignored
        # (one shared solver value: the code tests "declared == 0 or ignore", which forks once per distinct variable)
        anyv = ctx.int('declared_any', 0, 0xffffff)
        for s in natural:
            declared[s] = anyv
        mode = 0
        total_decl = anyv
    total = 8 + sum(exp_len.values()) + 4
    if honour:
        total_decl = [0, total, total + 1][mode]
        if mode == 2:
            refused = True
    chunks = _chunks(ctx, n)
    descs = [ctx.int('desc%d' % i, 0, 0xffff) for i in range(ndesc)]
    desc_ids = [(d // 16384) * 100000 + ((d // 256) % 64) * 1000 + d % 256 for d in descs]
    local_bits = ''.join('01'[(i * 5 + 1) % 3 == 0] for i in range(8 * k2))
    json_data = [['BUFR', total_decl, edition], _section1_values(ctx, edition, sec2, declared[1])]
    if sec2:
        json_data.append([declared[2], '00000000', local_bits])
    json_data.append([declared[3], '00000000', ctx.int('nsub', 0, 65535), True, False, '000000', desc_ids])
    json_data.append([declared[4], '00000000', chunks])
    json_data.append(['7777'])

    enc, dec = _coders(honour)
    try:
        msg = enc.process(json_data, wire_template_data=False)
    except PyBufrKitError as e:
        if refused:
            ctx.witness('refused')
            return None
        return {'what': 'encoder refused a consistent message', 'exc': repr(e)[:200], 'declared': declared, 'total_decl': total_decl}
    except Exception as e:
        return {'what': 'encoder raised a non-library error', 'exc': repr(e)[:200]}
    if refused:
        return {'what': 'a declared length shorter than the content (or a wrong total) was not refused',
                'declared': declared, 'natural': natural, 'total_decl': total_decl, 'total': total}
    data = msg.serialized_bytes
    blob = ctx.input_from([data] if isinstance(data, (bytes, bytearray)) else [data])
    d = _check_layout(ctx, blob, edition, sec2, exp_len, content, total)
    if d:
        return d
    if msg.length.value != total:
        return {'what': 'message object length', 'got': msg.length.value, 'exp': total}
    # the data bits and the descriptors are where they belong
    pos = (8 + exp_len[1] + (exp_len.get(2, 0)) + exp_len[3]) * 8 + 32
    r = ctx.reader(_as_handle(ctx, blob))
    r.bit_stream.pos = pos
    for v, w in chunks:
        if not (r.read_uint(w) == v):
            return {'what': 'data bits moved or changed'}
    # round trip through the real decoder, with trailing bytes
    ntrail = 0 if honour else ctx.choice('ntrail', p.get('max_trail', 1) + 1)
    trail = ctx.source('T', 8 * ntrail) if ntrail else None
    dec.n_data_bits = n
    try:
        m2 = dec.process(ctx.input_from([blob] + ([trail] if trail else [])), wire_template_data=False)
    except Exception as e:
        return {'what': 'decoder rejects what the encoder produced', 'exc': repr(e)[:200]}
    if len(m2.serialized_bytes) != total or not (m2.serialized_bytes == blob):
        return {'what': 'decoder does not report exactly the span BUFR..7777', 'got': len(m2.serialized_bytes), 'exp': total}
    # (section 3's descriptor count is defined by its length: zero fill of >= 2 octets reads as descriptors 000000)
    exp_ids = desc_ids + [0] * ((exp_len[3] - 7) // 2 - ndesc)
    if m2.length.value != total or m2.template_data.value != chunks or m2.unexpanded_descriptors.value != exp_ids:
        return {'what': 'decoded message differs from the encoded one'}
    ctx.witness('encoded')
    return None


def _as_handle(ctx, blob):
    if isinstance(blob, (bytes, bytearray)):
        from vlib.ctx import ConcreteSourceHandle
        h = ConcreteSourceHandle('B', len(blob) * 8, [])
        h.data = bytes(blob)
        return h
    from vlib.ctx import SymSourceHandle
    from vlib.model import bitstring as M
    return SymSourceHandle(M.Source(blob.store), 'B')


def _u(blob, pos_octet, n_octets):
    v = 0
    for k in range(n_octets):
        v = v * 256 + blob[pos_octet + k]
    return v


def _check_layout(ctx, blob, edition, sec2, exp_len, content, total):
    if len(blob) != total:
        return {'what': 'number of bytes produced', 'got': len(blob), 'exp': total}
    if not (blob[0:4] == b'BUFR'):
        return {'what': 'does not start with BUFR'}
    if not (blob[total - 4:total] == b'7777'):
        return {'what': 'does not end with 7777'}
    if not (_u(blob, 4, 3) == total):
        return {'what': 'section 0 length field', 'got': _u(blob, 4, 3), 'exp': total}
    if not (blob[7] == edition):
        return {'what': 'edition octet'}
    pos = 8
    for s in sorted(exp_len):
        if not (_u(blob, pos, 3) == exp_len[s]):
            return {'what': 'declared length of section %d is not its extent' % s, 'got': _u(blob, pos, 3), 'exp': exp_len[s]}
        # padding / fill: zero bits from the end of the content to the end of the section
        end_content = pos * 8 + content[s]
        end = (pos + exp_len[s]) * 8
        r = ctx.reader(_as_handle(ctx, blob))
        r.bit_stream.pos = end_content
        k = end - end_content
        while k > 0:
            w = min(k, 24)
            if not (r.read_uint(w) == 0):
                return {'what': 'padding of section %d is not zero' % s}
            k -= w
        pos += exp_len[s]
    if pos + 4 != total:
        return {'what': 'sections do not add up', 'got': pos + 4, 'exp': total}
    return None


# ---------------------------------------------------------------------------------------------------
# decoder over independently built streams (surplus octets, shorter declared lengths, trailing bytes)

def h_decode(ctx):
    from pybufrkit.errors import PyBufrKitError
    p = ctx.params
    edition, sec2, n, ndesc, k2, content = _plan(ctx, p)
    secs = sorted(content)
    # surplus: every section declares its minimal extent plus a solver-chosen number of octets; one may be short
    decl, min_oct = {}, {}
    short = ctx.choice('short', len(secs) + 1)
    one = p.get('surplus_mode', 'each') == 'one'    # quick tier: one solver-chosen section carries the surplus
    which = ctx.choice('surplus_section', len(secs) + 1) if one else None
    for i, s in enumerate(secs):
        min_oct[s] = (content[s] + 7) // 8      # decoders must not insist on even lengths
        if one:
            decl[s] = min_oct[s] + (1 + ctx.choice('surplus', p.get('max_surplus', 2)) if i == which else 0)
        else:
            decl[s] = min_oct[s] + ctx.choice('surplus%d' % s, p.get('max_surplus', 2) + 1)
    is_short = short < len(secs)
    if is_short:
        s = secs[short]
        if s in (2, 3):
            # sections 2 and 3 take their content size from the declared length: "shorter than content" cannot arise
            ctx.assume(False)
        decl[s] = min_oct[s] - 1 - ctx.choice('by', 2)
    parts = [b'BUFR']
    total = 8 + sum(decl.values()) + 4
    lied_total = ctx.int('total_field', 0, 0xffffff)   # the decoder must not depend on section 0's length to walk sections
    parts.append(('val', sc.unwrap(lied_total), 24))
    parts.append(bytes([edition]))
    fields = {}
    for s in secs:
        parts.append(decl[s].to_bytes(3, 'big'))
        if s == 1:
            # octet 4.. of section 1: only is_section2_presents matters structurally
            if edition == 4:
                pre, post = 6, 22 - 3 - 6 - 1
            elif edition == 3:
                pre, post = 4, 18 - 3 - 4 - 1
            else:
                pre, post = 4, 18 - 3 - 4 - 1
            parts.append(('lazy', 'h1a', 8 * pre))
            parts.append(bytes([0x80 if sec2 else 0x00]))
            parts.append(('lazy', 'h1b', 8 * post))
        elif s == 2:
            parts.append(('lazy', 'h2', 8 * (1 + k2)))
        elif s == 3:
            parts.append(('lazy', 'h3', 8 * 4))
            nd = (decl[3] - 7) // 2
            parts.append(('lazy', 'desc', 16 * nd))
            fields['nd'] = nd
        elif s == 4:
            parts.append(b'\0')
            parts.append(('lazy', 'data', n))
        used = {1: S1_OCTETS[edition] * 8, 2: (4 + k2) * 8, 3: (7 + 2 * fields.get('nd', 0)) * 8, 4: 32 + n}[s]
        rest = decl[s] * 8 - used
        if rest > 0:
            parts.append(('lazy', 'fill%d' % s, rest))
        elif rest < 0:
            if not (is_short and s == secs[short]):
                ctx.assume(False)
            if used % 8:
                parts.append(('lazy', 'align', 8 - used % 8))
    if is_short:
        # the stream continues with arbitrary bytes; it must not be accepted whatever they are
        parts.append(('lazy', 'after', 64))
    else:
        parts.append(b'7777')
        ntrail = ctx.choice('ntrail', p.get('max_trail', 1) + 1)
        if ntrail:
            parts.append(('lazy', 'trail', 8 * ntrail))
    h = ctx.source_from_parts('M', parts)
    blob = ctx.input_from([h])
    _, dec = _coders(False)
    dec.n_data_bits = n
    try:
        m = dec.process(blob, wire_template_data=False, ignore_value_expectation=is_short)
    except PyBufrKitError as e:
        if is_short:
            ctx.witness('short-refused')
            return None
        return {'what': 'decoder refused a well-formed message', 'exc': repr(e)[:200], 'decl': decl}
    except Exception as e:
        return {'what': 'decoder raised a non-library error', 'exc': repr(e)[:200], 'decl': decl}
    if is_short:
        return {'what': 'a section whose declared length is shorter than its content was accepted', 'decl': decl, 'min': min_oct}
    if len(m.serialized_bytes) != total or not (m.serialized_bytes == blob[:total]):
        return {'what': 'reported bytes are not the span BUFR..7777', 'got': len(m.serialized_bytes), 'exp': total}
    pos = 64
    for sec in m.sections[1:-1]:
        s = sec.get_metadata('index')
        if sec.get_metadata('bitpos_start') != pos:
            return {'what': 'section %d does not start where the previous one was declared to end' % s,
                    'got': sec.get_metadata('bitpos_start'), 'exp': pos}
        if not (sec.section_length.value == decl[s]):
            return {'what': 'section length value', 'section': s}
        pos += decl[s] * 8
    if m.sections[-1].get_metadata('bitpos_start') != pos:
        return {'what': 'end section position', 'got': m.sections[-1].get_metadata('bitpos_start'), 'exp': pos}
    if [s.get_metadata('index') for s in m.sections] != [0] + secs + [5]:
        return {'what': 'sections present', 'got': [s.get_metadata('index') for s in m.sections]}
    # content is read from the declared places
    if len(m.unexpanded_descriptors.value) != fields['nd']:
        return {'what': 'descriptor count', 'got': len(m.unexpanded_descriptors.value), 'exp': fields['nd']}
    data_start = (8 + decl[1] + decl.get(2, 0) + decl[3]) * 8 + 32
    k = data_start
    for v, w in m.template_data.value:
        if not (v == h.peek(k, w)):
            return {'what': 'data bits read from the wrong place'}
        k += w
    ctx.witness('decoded')
    return None
