"""
C05 - compression is transparent: same data, same decoded result.

One symbolic *compressed* stream C (minimum, 6-bit difference width and every difference are solver
bits, so every legal difference width up to the bound is covered, not only the encoder's choice) is
read by the independent reference: V = ref(C), the per-subset columns - any mix of equal, distinct
and missing entries.  Then, all with the real code on every path:

  D_c(C)            == V                                  the decoder reads every legal width
  U  = E_u(V);  D_u(U)  == V, same labels and links        stored uncompressed: same decoded result
  C' = E_c(V);  D_c(C') == V, same labels and links        the encoder's compressed form reads back
                ref(C') == V                              ... also by the independent reader

Real code executed: Encoder/Decoder.process_template_data in both modes with everything below
(process_*_compressed, nbits_for_uint, CoderState.minmax, _next_compressed_values_and_status_from_all_subsets).
"""
from vlib import pbk, fm94, families, symcore as sc


def prepare(params):
    fm94.load_tables()
    pbk.warm_tables()
    pbk.encoder()
    pbk.decoder()


def _cmp(tag, td, ref, n_subsets, links_of=None):
    for s in range(n_subsets):
        d = fm94.compare_subset(pbk.labels(td.decoded_descriptors_all_subsets[s]), td.decoded_values_all_subsets[s],
                                td.bitmap_links_all_subsets[s], ref.outs[s])
        if d:
            d['subset'] = s
            d['stage'] = tag
            return d
    return None


def h_transparent(ctx):
    p = ctx.params
    fam = families.by_name(p['family']) if 'family' in p else p
    ids = fam['ids']
    n = p.get('n_subsets', 2)
    opts = {}
    if p.get('strings') == 'alphabet':
        opts['string_alphabet'] = p.get('alphabet', [0x00, 0x41, 0xff])
    src = ctx.source('C', p.get('nbits', 512), **opts)
    try:
        ref = fm94.reference_decode(ctx, ids, src, n_subsets=n, compressed=True, in_range=True, string_width_exact=True,
                                    max_factor=p.get('max_factor', fam.get('max_factor', 1)),
                                    max_diff_width=p.get('max_diff_width', 2),
                                    no_missing=p.get('no_missing', fam.get('no_missing', False)))
    except fm94.RefMalformed:
        ctx.witness('malformed')
        return None
    values = [[it.value for it in out.items] for out in ref.outs]
    ctx.note('values', values)
    # (1) the decoder on the foreign compressed stream
    try:
        td_c, pos, _ = pbk.decode_template_data(ctx, ids, src, n_subsets=n, compressed=True)
    except Exception as e:
        return {'what': 'decoder raised on a well-formed compressed stream', 'exc': repr(e)[:300]}
    d = _cmp('decode of the foreign compressed stream', td_c, ref, n)
    if d:
        return d
    if pos != ref.pos:
        return {'what': 'end position', 'got': pos, 'exp': ref.pos}
    # values that coincide with their field's all-ones pattern read back as missing (C03's stated exception): excluded
    for s in range(n):
        for it in ref.outs[s].items:
            if it.enc is not None and it.value is not None and it.kind != 'newref':
                w, r, den = it.enc
                num = it.value.num if isinstance(it.value, sc.Quot) else (it.value if den == 1 else None)
                if num is not None and w > 1 and bool(num - r == (1 << w) - 1):
                    ctx.assume(False)
    # (2) the same subsets stored uncompressed
    try:
        w_u, _, _ = pbk.encode_template_data(ctx, ids, [list(v) for v in values], n_subsets=n, compressed=False)
    except Exception as e:
        return {'what': 'uncompressed encoding refused the subsets', 'exc': repr(e)[:300]}
    try:
        td_u, _, _ = pbk.decode_template_data(ctx, ids, ctx.source_of_written('U', w_u, **opts), n_subsets=n, compressed=False)
    except Exception as e:
        return {'what': 'uncompressed form does not decode', 'exc': repr(e)[:300]}
    d = _cmp('decode of the uncompressed form', td_u, ref, n)
    if d:
        return d
    # (3) the encoder's own compressed form
    try:
        w_c, _, _ = pbk.encode_template_data(ctx, ids, [list(v) for v in values], n_subsets=n, compressed=True)
    except Exception as e:
        return {'what': 'compressed encoding refused the subsets', 'exc': repr(e)[:300]}
    h = ctx.source_of_written('C2', w_c, **opts)
    try:
        td_c2, pos2, _ = pbk.decode_template_data(ctx, ids, h, n_subsets=n, compressed=True)
    except Exception as e:
        return {'what': 'compressed form written by the encoder does not decode', 'exc': repr(e)[:300]}
    d = _cmp('decode of the compressed form written by the encoder', td_c2, ref, n)
    if d:
        return d
    if pos2 != w_c.get_pos():
        return {'what': 'decoder did not consume the whole compressed form', 'got': pos2, 'exp': w_c.get_pos()}
    try:
        ref2 = fm94.reference_decode(ctx, ids, h, n_subsets=n, compressed=True, max_factor=64, max_diff_width=64)
    except fm94.RefMalformed as e:
        return {'what': 'independent reader: encoder output is not a well-formed compressed section', 'why': str(e)}
    for s in range(n):
        for i, (it, v) in enumerate(zip(ref2.outs[s].items, values[s])):
            if not fm94.same(it.value, v):
                return {'what': 'independent reader reads a different column', 'subset': s, 'index': i, 'got': it.value, 'exp': v}
    # labels and links are the same whichever way the data was stored
    for s in range(n):
        if pbk.labels(td_u.decoded_descriptors_all_subsets[s]) != pbk.labels(td_c2.decoded_descriptors_all_subsets[s]):
            return {'what': 'labels differ between the two storage forms', 'subset': s}
        if dict(td_u.bitmap_links_all_subsets[s]) != dict(td_c2.bitmap_links_all_subsets[s]):
            return {'what': 'links differ between the two storage forms', 'subset': s}
    ctx.witness('transparent')
    return None


def h_column(ctx):
    """
    Small-scope exhaustive core: one column of n entries over the raw domain {missing, 0..2^w-2} of a w-bit
    field (w by parameter), every entry a solver integer / missing flag; written compressed by the real encoder,
    read back by the real decoder and by the independent reader.
    """
    p = ctx.params
    n = p.get('n_subsets', 3)
    eid = p['element']     # scale 0, reference 0 numeric or code element of width w
    B, _ = fm94.load_tables()
    w = B[eid][4]
    col = []
    top = (1 << w) - (2 if w > 1 else 1)
    spread = p.get('spread')     # wide fields: entries within base..base+spread (nbits_for_uint enumerates the range)
    base = ctx.int('base', 0, top - spread) if spread is not None else None
    for s in range(n):
        if w > 1 and ctx.bool('missing%d' % s):
            col.append(None)
        elif spread is not None:
            col.append(base + ctx.int('v%d' % s, 0, spread) + B[eid][3])
        else:
            col.append(ctx.int('v%d' % s, 0, top) + B[eid][3])
    ctx.note('column', col)
    try:
        wr, _, _ = pbk.encode_template_data(ctx, [eid], [[v] for v in col], n_subsets=n, compressed=True)
    except Exception as e:
        return {'what': 'compressed encoding refused a representable column', 'exc': repr(e)[:300]}
    h = ctx.source_of_written('W', wr)
    try:
        td, pos, _ = pbk.decode_template_data(ctx, [eid], h, n_subsets=n, compressed=True)
    except Exception as e:
        return {'what': 'the written column does not decode', 'exc': repr(e)[:300]}
    got = [td.decoded_values_all_subsets[s][0] for s in range(n)]
    for s in range(n):
        if not fm94.same(got[s], col[s]):
            return {'what': 'column read back differently', 'subset': s, 'got': got[s], 'exp': col[s]}
    if pos != wr.get_pos():
        return {'what': 'length'}
    ref = fm94.reference_decode(ctx, [eid], h, n_subsets=n, compressed=True, max_diff_width=64)
    for s in range(n):
        if not fm94.same(ref.outs[s].items[0].value, col[s]):
            return {'what': 'independent reader reads a different column', 'subset': s}
    ctx.witness('column')
    return None
