"""
C06 - subsets of an uncompressed message are decoded (and encoded) independently.

Self-composition: one stream A ++ B of solver bits.  Run 1 decodes two subsets
together; run 2 decodes A alone and B alone (fresh state, the reader positioned
where the subset starts).  Values, labels, links and the hierarchical rendering
must agree position by position.  Permutation invariance follows: the joint
result is a function of each subset's own bits only.

Real code executed: Decoder/Encoder.process_template_data with n_subsets = 2,
CoderState.switch_subset_context, TemplateData.wire, NestedJsonRenderer.
"""
from vlib import pbk, fm94, families, symcore as sc


def prepare(params):
    fm94.load_tables()
    pbk.warm_tables()
    pbk.decoder()
    pbk.encoder()


def same_tree(a, b):
    """Structural equality of nested-JSON renderings with solver-valued leaves."""
    if isinstance(a, dict) and isinstance(b, dict):
        if sorted(a) != sorted(b):
            return False
        return all(same_tree(a[k], b[k]) for k in a)
    if isinstance(a, list) and isinstance(b, list):
        return len(a) == len(b) and all(same_tree(x, y) for x, y in zip(a, b))
    if isinstance(a, (dict, list)) or isinstance(b, (dict, list)):
        return False
    if isinstance(a, str) or isinstance(b, str):
        return a == b
    return fm94.same(a, b)


def _decode_at(ctx, ids, src, pos, n_subsets, compiled=None):
    m = pbk.make_message(ids, n_subsets, False)
    reader = ctx.reader(src)
    reader.bit_stream.pos = pos
    td = pbk.decoder(compiled).process_template_data(m, reader)
    return td, reader.get_pos()


def h_independent(ctx):
    from pybufrkit.renderer import NestedJsonRenderer
    p = ctx.params
    fam = families.by_name(p['family'])
    ids = fam['ids']
    n = p.get('n_subsets', 2)
    src = ctx.source('S', p.get('nbits', 1024))
    try:
        ref = fm94.reference_decode(ctx, ids, src, n_subsets=n, compressed=False,
                                    max_factor=p.get('max_factor', fam.get('max_factor', 2)),
                                    no_missing=p.get('no_missing', fam.get('no_missing', True)))
    except fm94.RefMalformed:
        ctx.witness('malformed')
        return None
    try:
        joint, end = _decode_at(ctx, ids, src, 0, n, p.get('compiled'))
    except Exception as e:
        return {'what': 'joint decode raised', 'exc': repr(e)[:300]}
    rnd = NestedJsonRenderer()
    try:
        joint.wire()
        joint_nested = rnd._render_template_data(joint)
    except Exception as e:
        return {'what': 'wiring / rendering of the joint decode raised', 'exc': repr(e)[:300]}
    pos = 0
    alone_values = []
    for s in range(n):
        try:
            alone, pos2 = _decode_at(ctx, ids, src, pos, 1, p.get('compiled'))
        except Exception as e:
            return {'what': 'subset decodes in the joint run but not alone', 'subset': s, 'exc': repr(e)[:300]}
        d = fm94.compare_subset(pbk.labels(joint.decoded_descriptors_all_subsets[s]), joint.decoded_values_all_subsets[s],
                                None, _AsOut(alone))
        if d:
            d['subset'] = s
            d['what'] = 'joint vs alone: ' + d['what']
            return d
        if dict(joint.bitmap_links_all_subsets[s]) != dict(alone.bitmap_links_all_subsets[0]):
            return {'what': 'joint vs alone: links', 'subset': s, 'joint': {str(k): v for k, v in joint.bitmap_links_all_subsets[s].items()},
                    'alone': {str(k): v for k, v in alone.bitmap_links_all_subsets[0].items()}}
        try:
            alone.wire()
            alone_nested = rnd._render_template_data(alone)[0]
        except Exception as e:
            return {'what': 'wiring / rendering of a subset decoded alone raised', 'subset': s, 'exc': repr(e)[:300]}
        if not same_tree(joint_nested[s], alone_nested):
            return {'what': 'joint vs alone: hierarchical structure', 'subset': s}
        alone_values.append(list(alone.decoded_values_all_subsets[0]))
        pos = pos2
    if pos != end:
        return {'what': 'joint run consumed a different number of bits', 'joint': end, 'alone': pos}
    ctx.witness('decoded')
    # the reference resets its registers per subset: a second, independent statement of the same thing
    for s in range(n):
        d = fm94.compare_subset(pbk.labels(joint.decoded_descriptors_all_subsets[s]), joint.decoded_values_all_subsets[s],
                                joint.bitmap_links_all_subsets[s], ref.outs[s])
        if d:
            d['subset'] = s
            d['what'] = 'joint vs reference: ' + d['what']
            return d
    if not p.get('encode', True):
        return None
    # encoder: both subsets together == each alone, concatenated
    try:
        wj, _, _ = pbk.encode_template_data(ctx, ids, [list(v) for v in alone_values], n_subsets=n)
    except Exception as e:
        return {'what': 'joint encode raised', 'exc': repr(e)[:300]}
    fields = []
    for s in range(n):
        try:
            wa, _, _ = pbk.encode_template_data(ctx, ids, [list(alone_values[s])], n_subsets=1)
        except Exception as e:
            return {'what': 'single-subset encode raised', 'subset': s, 'exc': repr(e)[:300]}
        fields.extend(ctx.written_fields(wa))
    fj = ctx.written_fields(wj)
    if len(fj) != len(fields):
        return {'what': 'joint encode differs from the concatenation of single encodes', 'n_joint': len(fj), 'n_alone': len(fields)}
    for k, (a, b) in enumerate(zip(fj, fields)):
        if ctx.mode == 'explore':
            if a[0] != b[0] or not (a[1] == b[1]):
                return {'what': 'joint encode differs from the concatenation of single encodes', 'field': k, 'joint': a, 'alone': b}
        elif a != b:
            return {'what': 'joint encode differs from the concatenation of single encodes', 'bit': k}
    ctx.witness('encoded')
    return None


class _Item(object):
    def __init__(self, label, value):
        self.label, self.value = label, value


class _AsOut(object):
    """A TemplateData subset presented like a reference output (for compare_subset)."""

    def __init__(self, td):
        self.items = [_Item(str(d), v) for d, v in zip(td.decoded_descriptors_all_subsets[0], td.decoded_values_all_subsets[0])]
        self.links = dict(td.bitmap_links_all_subsets[0])
