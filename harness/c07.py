"""
C07 - bitmap-driven and associated attributes are linked to the element they qualify.

Real code executed: Coder.process_bitmap_definition, CoderState.build_bitmapped_descriptors /
add_bitmap_link, process_bitmapped_descriptor, define_bitmap (decoder), TemplateData.wire*
and NestedJsonRenderer.  Bitmap bits, bitmap length (delayed replication of 031031) and the
number of attribute values are solver variables.  Oracle: the FM-94 reference's ownership
relation (k-th attribute -> k-th zero bit, bits matched to the N elements before the operator).
"""
from vlib import pbk, fm94, families

ATTR_NODE = {'T': 'SubstitutionNode', 'F': 'FirstOrderStatsNode', 'D': 'DifferenceStatsNode', 'R': 'ReplacementNode'}


def prepare(params):
    fm94.load_tables()
    pbk.warm_tables()
    pbk.decoder()


def collect_nodes(nodes, by_index, seen_order):
    """Walk the wired node tree; every value node must be reached exactly once."""
    for node in nodes:
        if hasattr(node, 'factor') and node.factor is not None:
            _visit_value(node.factor, by_index, seen_order)
        if hasattr(node, 'index'):
            _visit_value(node, by_index, seen_order)
        if hasattr(node, 'members'):
            collect_nodes(node.members, by_index, seen_order)


def _visit_value(node, by_index, seen_order):
    by_index.setdefault(node.index, []).append(node)
    seen_order.append(node.index)
    for a in getattr(node, 'attributes', []):
        # associated fields exist only as attributes; bitmap-driven attributes and meaning elements are
        # members at their own position and are merely referenced ("virtual") from their owner
        if type(a).__name__ == 'AssociatedFieldNode':
            _visit_value(a, by_index, seen_order)


def h_links(ctx):
    from pybufrkit.renderer import NestedJsonRenderer
    p = ctx.params
    fam = families.by_name(p['family'])
    ids = fam['ids']
    n_subsets = p.get('n_subsets', 1)
    compressed = p.get('compressed', False)
    src = ctx.source('S', p.get('nbits', 1024))
    try:
        ref = fm94.reference_decode(ctx, ids, src, n_subsets=n_subsets, compressed=compressed,
                                    max_factor=p.get('max_factor', fam.get('max_factor', 2)),
                                    max_diff_width=p.get('max_diff_width', 1),
                                    no_missing=p.get('no_missing', True))
    except fm94.RefMalformed:
        ctx.witness('malformed')
        return None
    try:
        td, pos, _ = pbk.decode_template_data(ctx, ids, src, n_subsets=n_subsets, compressed=compressed,
                                              compiled=p.get('compiled'))
    except Exception as e:
        return {'what': 'decoder raised on a well-formed stream', 'exc': repr(e)[:300]}
    try:
        td.wire()
    except Exception as e:
        return {'what': 'wiring raised', 'exc': repr(e)[:300]}
    nested = NestedJsonRenderer()._render_template_data(td)
    for s in range(1 if compressed else n_subsets):
        out = ref.outs[s]
        labels = pbk.labels(td.decoded_descriptors_all_subsets[s])
        d = fm94.compare_subset(labels, td.decoded_values_all_subsets[s], td.bitmap_links_all_subsets[s], out)
        if d:
            d['subset'] = s
            return d
        by_index, order = {}, []
        collect_nodes(td.decoded_nodes_all_subsets[s], by_index, order)
        n = len(out.items)
        if sorted(by_index) != list(range(n)) or any(len(v) != 1 for v in by_index.values()):
            return {'what': 'hierarchical view does not contain every value exactly once', 'subset': s,
                    'indices': sorted(by_index), 'n': n}
        node = {k: v[0] for k, v in by_index.items()}
        # bitmap-driven attributes
        for a, o in out.links.items():
            attrs = getattr(node[o], 'attributes', [])
            if node[a] not in attrs:
                return {'what': 'attribute is not attached to the element its bitmap designates', 'subset': s,
                        'attribute': out.items[a].label, 'attr_index': a, 'owner_index': o}
            lab = out.items[a].label
            want = ATTR_NODE.get(lab[0], 'QualityInfoNode')
            if type(node[a]).__name__ != want:
                return {'what': 'attribute node kind', 'label': lab, 'got': type(node[a]).__name__, 'exp': want}
            for o2 in range(n):
                if o2 != o and node[a] in getattr(node[o2], 'attributes', []):
                    return {'what': 'attribute attached to a second owner', 'attr_index': a, 'owners': [o, o2]}
        # associated fields belong to the element they precede
        for a, o in out.assoc.items():
            if node[a] not in getattr(node[o], 'attributes', []) or type(node[a]).__name__ != 'AssociatedFieldNode':
                return {'what': 'associated field is not attached to the element it precedes', 'attr_index': a, 'owner_index': o}
        # meanings (031021 / 008023 / 008024)
        for a, m in out.meaning.items():
            mattrs = getattr(node[a], 'attributes', [])
            if not mattrs or mattrs[0] is not node[m]:
                return {'what': 'attribute does not carry its meaning element', 'attr_index': a, 'meaning_index': m,
                        'label': out.items[a].label}
        # nothing else is an attribute
        expected_attr = set(out.links) | set(out.assoc)
        for k in range(n):
            for anode in getattr(node[k], 'attributes', []):
                if anode.index not in expected_attr and anode.index not in out.meaning.values():
                    return {'what': 'unexpected attribute', 'owner_index': k, 'attr_index': anode.index}
        # the rendering shows each attribute under its owner
        flat = {}
        _index_rendering(nested[s], td.decoded_nodes_all_subsets[s], flat)
        for a, o in list(out.links.items()) + list(out.assoc.items()):
            r = flat.get(o)
            if r is None or not any(x.get('id') == out.items[a].label and fm94.same(x.get('value'), out.items[a].value)
                                    for x in r.get('attributes', [])):
                return {'what': 'nested rendering does not show the attribute under its owner', 'attr_index': a, 'owner_index': o}
            if a in out.meaning:
                ra = [x for x in r['attributes'] if x.get('id') == out.items[a].label][0]
                mi = out.items[out.meaning[a]]
                if not any(x.get('id') == mi.label for x in ra.get('attributes', [])):
                    return {'what': 'nested rendering does not show the meaning of the attribute', 'attr_index': a}
    ctx.witness('linked' if any(o.links or o.assoc for o in ref.outs) else 'no-attributes')
    return None


def _index_rendering(rendered, nodes, flat):
    """Pair rendered dicts with nodes (same traversal order) to map flat index -> rendered dict."""
    for r, node in zip(rendered, nodes):
        if hasattr(node, 'index'):
            flat[node.index] = r
        if hasattr(node, 'factor') and node.factor is not None and 'factor' in r:
            flat[node.factor.index] = r['factor']
        if hasattr(node, 'members') and 'members' in r:
            if type(node).__name__ in ('FixedReplicationNode', 'DelayedReplicationNode'):
                nm = node.descriptor.n_members
                for k, rep in enumerate(r['members']):
                    _index_rendering(rep, node.members[k * nm:(k + 1) * nm], flat)
            else:
                _index_rendering(r['members'], node.members, flat)
