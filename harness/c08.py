"""
C08 - template compilation preserves behaviour (decode, encode, save/load, cache).

Self-composition: the interpreted coder and the compiled coder (through the real
CompiledTemplateManager, and through to_dict -> json -> loads_compiled_template) run on the SAME
symbolic stream / value list; values, labels, links, end position / written fields - or the error
class - must agree on every path.  The program (template) is concrete, all data is symbolic; the
reference model is only used to keep the data inside the stated bounds (factors, widths).

Real code executed: TemplateCompiler.*, CompilerState.*, CompiledTemplateManager.get_or_compile,
MethodCall.to_dict / Loop.to_dict / CompiledTemplate.to_dict, loads_compiled_template and the load
functions, process_compiled_template / process_statements, and the whole Decoder / Encoder below.
"""
import json

from vlib import pbk, fm94, families, symcore as sc

EXTRA = {
    # operators in force at a marker operator (all opened and closed inside one scope)
    'marker-str208': [11, 1004, 208003, 223000, 101002, 31031, 223255, 208000],
    'marker-under-207': [12001, 1004, 207001, 224000, 101002, 31031, 8023, 224255, 207000],
    'marker-under-202': [12001, 1004, 202129, 232000, 101002, 31031, 232255, 202000],
    'marker-under-204': [1004, 2001, 204002, 31021, 223000, 101002, 31031, 223255, 204000],
    'marker-after-203000': [203010, 4015, 203255, 4015, 203000, 223000, 101001, 31031, 223255],
    'marker-with-203': [203010, 4015, 203255, 4015, 223000, 101001, 31031, 223255, 203000],
    'rep-with-ops': [101002, 201130, 101000, 31001, 12001, 201000, 1004],
    'seq-309052-head': [301001, 301011, 301013, 301021],
    # a delayed replication (its class-31 factor) while an operator is pending on 'the following elements'
    'rep-in-203': [1001, 203012, 101000, 31001, 12001, 203255, 12001, 203000, 12001],
}


def family(p):
    if 'ids' in p:
        return p
    if p['family'] in EXTRA:
        return {'name': p['family'], 'ids': EXTRA[p['family']], 'no_missing': True, 'max_factor': 2}
    return families.by_name(p['family'])


def prepare(params):
    fm94.load_tables()
    pbk.warm_tables()
    pbk.decoder()
    pbk.encoder()


def _compiled_template(mode, ids, cache_max=4):
    """The compiled form under test: fresh from the manager, from a warm cache, or re-loaded from JSON."""
    from pybufrkit.templatecompiler import CompiledTemplateManager, loads_compiled_template
    tg = pbk.warm_tables()
    template = tg.template_from_ids(*ids)
    mgr = CompiledTemplateManager(cache_max)
    ct = mgr.get_or_compile(template, tg)
    if mode == 'cached':
        ct2 = mgr.get_or_compile(tg.template_from_ids(*ids), tg)
        if cache_max > 0 and ct2 is not ct:
            raise AssertionError('cache miss on an identical template')
        ct = ct2
    elif mode == 'reloaded':
        ct = loads_compiled_template(json.dumps(ct.to_dict()))
    return ct


def _decode(ctx, ids, handle, n_subsets, compressed, compiled_template=None):
    """One decode; returns ('ok', td, pos) or ('exc', class name)."""
    import functools
    from pybufrkit.coder import CoderState
    from pybufrkit.templatedata import TemplateData
    from pybufrkit.templatecompiler import process_compiled_template
    dec = pbk.decoder()
    m = pbk.make_message(ids, n_subsets, compressed)
    reader = ctx.reader(handle)
    try:
        if compiled_template is None:
            td = dec.process_template_data(m, reader)
        else:
            # Decoder.process_template_data with the compiled template supplied by the harness
            template, _ = m.build_template(dec.tables_root_dir, normalize=1)
            state = CoderState(compressed, n_subsets)
            if compressed:
                process_compiled_template(dec, state, reader, compiled_template)
            else:
                for k in range(n_subsets):
                    state.switch_subset_context(k)
                    process_compiled_template(dec, state, reader, compiled_template)
            td = TemplateData(template, compressed, state.decoded_descriptors_all_subsets,
                              state.decoded_values_all_subsets, state.bitmap_links_all_subsets)
    except Exception as e:
        return ('exc', type(e).__name__, reader.get_pos())
    return ('ok', td, reader.get_pos())


def _same_decode(a, b, n_subsets):
    if a[0] != b[0]:
        return {'what': 'one path fails where the other succeeds', 'interpreted': a[1] if a[0] == 'exc' else 'ok',
                'compiled': b[1] if b[0] == 'exc' else 'ok'}
    if a[0] == 'exc':
        if a[1] != b[1]:
            return {'what': 'different error', 'interpreted': a[1], 'compiled': b[1]}
        return None
    ta, tb = a[1], b[1]
    for s in range(n_subsets):
        la, lb = pbk.labels(ta.decoded_descriptors_all_subsets[s]), pbk.labels(tb.decoded_descriptors_all_subsets[s])
        if la != lb:
            return {'what': 'labels', 'subset': s, 'interpreted': la, 'compiled': lb}
        va, vb = ta.decoded_values_all_subsets[s], tb.decoded_values_all_subsets[s]
        if len(va) != len(vb):
            return {'what': 'value count', 'subset': s}
        for i, (x, y) in enumerate(zip(va, vb)):
            if not fm94.same(x, y):
                return {'what': 'value', 'subset': s, 'index': i, 'label': la[i], 'interpreted': x, 'compiled': y}
        if dict(ta.bitmap_links_all_subsets[s]) != dict(tb.bitmap_links_all_subsets[s]):
            return {'what': 'links', 'subset': s, 'interpreted': {str(k): v for k, v in ta.bitmap_links_all_subsets[s].items()},
                    'compiled': {str(k): v for k, v in tb.bitmap_links_all_subsets[s].items()}}
    if a[2] != b[2]:
        return {'what': 'end position', 'interpreted': a[2], 'compiled': b[2]}
    return None


def _bound(ctx, p, fam, src, canonical=False):
    """Keep the data inside the stated bounds (factors, difference widths) - via the reference walk."""
    return fm94.reference_decode(ctx, fam['ids'], src, n_subsets=p.get('n_subsets', 1), compressed=p.get('compressed', False),
                                 max_factor=p.get('max_factor', fam.get('max_factor', 2)),
                                 max_diff_width=p.get('max_diff_width', 1),
                                 no_missing=p.get('no_missing', fam.get('no_missing', False)), canonical_only=canonical)


def h_decode_equiv(ctx):
    p = ctx.params
    fam = family(p)
    ids = fam['ids']
    n, compressed = p.get('n_subsets', 1), p.get('compressed', False)
    src = ctx.source('S', p.get('nbits', 1024))
    try:
        ref = _bound(ctx, p, fam, src)
    except fm94.RefMalformed:
        ctx.witness('malformed')
        return None
    except fm94.RefUnsupported:
        ctx.witness('unsupported')
        return None
    if p.get('truncate'):
        # the same error: both paths must fail (or succeed) identically on a stream cut at a solver-chosen bit
        cut = ctx.int('cut', 0, ref.pos)
        src.set_limit(cut if ctx.mode == 'explore' else (cut // 8) * 8)
    ct = _compiled_template(p.get('mode', 'fresh'), ids)
    a = _decode(ctx, ids, src, n, compressed)
    b = _decode(ctx, ids, src, n, compressed, ct)
    d = _same_decode(a, b, n)
    if d:
        return d
    ctx.witness('ok' if a[0] == 'ok' else 'both-fail')
    return None


def h_encode_equiv(ctx):
    p = ctx.params
    fam = family(p)
    ids = fam['ids']
    n, compressed = p.get('n_subsets', 1), p.get('compressed', False)
    src = ctx.source('S', p.get('nbits', 1024))
    try:
        ref = _bound(ctx, p, fam, src, canonical=True)
    except (fm94.RefMalformed, fm94.RefUnsupported):
        ctx.witness('malformed')
        return None
    values = [[it.value for it in out.items] for out in ref.outs]
    if p.get('perturb'):
        # "the same error": one solver-chosen numeric entry is replaced by an arbitrary integer (may not fit its field)
        cands = [(s, i) for s in range(n) for i, it in enumerate(ref.outs[s].items)
                 if it.enc is not None and it.enc[2] == 1 and it.eid not in (31000, 31001, 31002, 31031)]
        if cands:
            s, i = cands[ctx.choice('which', len(cands))]
            values[s][i] = ctx.int('odd', -3, 1 << 13)
    ctx.note('values', values)
    ct = _compiled_template(p.get('mode', 'fresh'), ids)
    a = _encode(ctx, ids, values, n, compressed, None)
    b = _encode(ctx, ids, values, n, compressed, ct)
    if a[0] != b[0]:
        return {'what': 'one path fails where the other succeeds', 'interpreted': a[1] if a[0] == 'exc' else 'ok',
                'compiled': b[1] if b[0] == 'exc' else 'ok'}
    if a[0] == 'exc':
        if a[1] != b[1]:
            return {'what': 'different error', 'interpreted': a[1], 'compiled': b[1]}
        ctx.witness('both-fail')
        return None
    wa, wb = a[1], b[1]
    if wa.get_pos() != wb.get_pos():
        return {'what': 'length of the written data', 'interpreted': wa.get_pos(), 'compiled': wb.get_pos()}
    fa, fb = ctx.written_fields(wa), ctx.written_fields(wb)
    if ctx.mode == 'explore':
        if len(fa) != len(fb):
            fa, fb = [(1, x) for x in ctx.written_bits(wa)], [(1, x) for x in ctx.written_bits(wb)]
        for k, (x, y) in enumerate(zip(fa, fb)):
            if x[0] != y[0] or not (x[1] == y[1]):
                return {'what': 'written field differs', 'field': k, 'interpreted': x, 'compiled': y}
    elif fa != fb:
        return {'what': 'written bits differ'}
    for s in range(n):
        if pbk.labels(a[2].decoded_descriptors_all_subsets[s]) != pbk.labels(b[2].decoded_descriptors_all_subsets[s]):
            return {'what': 'labels', 'subset': s}
        if dict(a[2].bitmap_links_all_subsets[s]) != dict(b[2].bitmap_links_all_subsets[s]):
            return {'what': 'links', 'subset': s}
    ctx.witness('ok')
    return None


def _encode(ctx, ids, values, n_subsets, compressed, compiled_template):
    from pybufrkit.coder import CoderState
    from pybufrkit.templatedata import TemplateData
    from pybufrkit.templatecompiler import process_compiled_template
    enc = pbk.encoder()
    m = pbk.make_message(ids, n_subsets, compressed)
    writer = ctx.writer()
    vals = [list(v) for v in values]
    try:
        if compiled_template is None:
            par = pbk.param('template_data', vals, 0, 'template_data')
            enc.process_template_data(m, writer, par)
            td = par.value
        else:
            template, _ = m.build_template(enc.tables_root_dir, normalize=1)
            state = CoderState(compressed, n_subsets, vals)
            if compressed:
                process_compiled_template(enc, state, writer, compiled_template)
            else:
                for k in range(n_subsets):
                    state.switch_subset_context(k)
                    process_compiled_template(enc, state, writer, compiled_template)
            td = TemplateData(template, compressed, state.decoded_descriptors_all_subsets,
                              state.decoded_values_all_subsets, state.bitmap_links_all_subsets)
    except Exception as e:
        return ('exc', type(e).__name__)
    return ('ok', writer, td)


# ---------------------------------------------------------------------------------------------------
# cache: any cache size, any order of messages

POOL = [[1004, 12001], [101000, 31001, 2001], [201130, 1004, 201000, 1004]]


def h_cache(ctx):
    """
    A compiled decoder with cache size c processes a solver-chosen sequence of <= 3 messages over a pool of 3
    templates; each message has its own solver bits; every result must equal the interpreted decode.
    The cache is inspected after each step: never more than c entries, each entry filed under its own key.
    """
    from pybufrkit.decoder import Decoder
    p = ctx.params
    c = p['cache_max']
    dec_c = Decoder(compiled_template_cache_max=c)
    length = 1 + ctx.choice('length', p.get('max_len', 3))
    for step in range(length):
        t = ctx.choice('t%d' % step, len(POOL))
        ids = POOL[t]
        src = ctx.source('S%d' % step, 64)
        try:
            fm94.reference_decode(ctx, ids, src, max_factor=2, no_missing=True)
        except fm94.RefMalformed:
            return None
        a = _decode(ctx, ids, src, 1, False)
        m = pbk.make_message(ids, 1, False)
        reader = ctx.reader(src)
        try:
            td = dec_c.process_template_data(m, reader)
            b = ('ok', td, reader.get_pos())
        except Exception as e:
            b = ('exc', type(e).__name__, reader.get_pos())
        d = _same_decode(a, b, 1)
        if d:
            d['step'] = step
            d['template'] = ids
            return d
        cache = dec_c.compiled_template_manager.cache
        if len(cache) > max(c, 0):
            return {'what': 'cache holds more entries than its limit', 'size': len(cache), 'limit': c}
        for key, ct in cache.items():
            if tuple(ct.template.original_descriptor_ids) != key[0] or ct.table_group_key != key[1]:
                return {'what': 'cache entry filed under a foreign key'}
    ctx.witness('cache')
    return None
