"""
C09 - the four output formats carry the same data and convert back to it.

Structure layer: the message *shape* is solver-driven - delayed replication factors, bitmap bits, bitmap lengths,
attribute counts and 1-bit fields are solver variables explored path by path over a symbolic stream (via the FM-94
reference walk); the *content* of every other field is pinned, by solver constraints, to a rotating menu of tricky
values (0, missing, 1, max, flag patterns; strings with quotes, blanks, ' b', backslashes and 8-bit characters),
because the text parsers go through repr()/ast.literal_eval (C level).  The solver then produces the concrete data
section of each shape; the harness assembles a whole message independently and the REAL decoder, wiring, four
renderers, three converters and the encoder run on it.

Checked per shape: flat text -> flat JSON, nested text -> flat JSON, nested JSON -> flat JSON all equal the flat JSON
rendering; re-encoding the flat JSON gives bytes that carry the same flat JSON again; the hierarchical view contains every flat index exactly
once (member, factor or attribute) and its document order recovers the flat order.
"""
from vlib import pbk, fm94, families, msgbuild, symcore as sc
from crosshair.tracers import NoTracing

STRINGS = [b"a'b", b'a"b', b' x ', b'\xe9t\xe9', b" b'", b'x b', b'\\n\\', b"''\"", b'  ', b"b'b'", b'ABC']

EXTRA = {
    'np221': [221002, 1004, 12001, 12001, 221001, 20003, 2001],
    'np221-string': [221001, 11, 1004, 10],
    'flag': [2002, 20003, 8042, 1004],
    'strings3': [10, 11, 205003, 1015],
    'attr-on-factor': [101000, 31001, 1004, 222000, 101002, 31031, 33007, 33007],
    'zero-rep': [101000, 31001, 1004, 102000, 31000, 2001, 12001, 10],
    'chain': [1004, 12001, 222000, 236000, 101002, 31031, 101000, 31001, 33003, 224000, 237000, 8023, 101000, 31001, 224255],
    'assoc-str': [204004, 31021, 10, 12001, 204000, 1004],
}


def family(p):
    if p['family'] in EXTRA:
        return {'name': p['family'], 'ids': EXTRA[p['family']], 'max_factor': 2}
    return families.by_name(p['family'])


def prepare(params):
    fm94.load_tables()
    pbk.warm_tables()
    pbk.decoder()
    pbk.encoder()


class MenuEnv(fm94.Env):
    """Content fields are pinned to menu values; structure fields stay free (forked by the walk)."""
    structural = False
    counter = 0
    phase = 0

    def pick(self, n):
        ones = (1 << n) - 1
        menu = [0, ones, 1, ones - 1, 1 << (n - 1), ones // 3]
        k = self.counter + self.phase
        self.counter += 1
        return menu[k % len(menu)]

    def is_missing(self, v, n):
        if self.structural or not sc.is_sym(v):
            return self.truth(v == fm94.all_ones(n))
        raw = self.pick(n)
        sc.add(sc.unwrap(v) == raw)
        return raw == fm94.all_ones(n)


class ShapeRef(fm94.Reference):
    def _element(self, d, **kw):
        # replication factors and bitmap bits shape the message; every other class-31 element is content
        self.env.structural = d in (31000, 31001, 31002, 31031)
        try:
            return fm94.Reference._element(self, d, **kw)
        finally:
            self.env.structural = False

    def _read_signed(self, n):
        # 203YYY reference-value definitions are content too: pinned to a menu (incl. negative values and negative zero)
        if not self.compressed and sc.is_sym(self.bits.peek(self.pos, n)):
            menu = [0, 1, (1 << n) - 1, 1 << (n - 1), (1 << (n - 1)) - 1, (1 << (n - 1)) + 5]
            k = self.env.counter + self.env.phase
            self.env.counter += 1
            sc.add(sc.unwrap(self.bits.peek(self.pos, n)) == menu[k % len(menu)])
        return fm94.Reference._read_signed(self, n)

    def _bytes(self, nbytes):
        v = fm94.Reference._bytes(self, nbytes)
        if isinstance(v, sc.SymSeq):
            chosen = self.env.string_for(nbytes)
            with NoTracing():
                for t, c in zip(v.items, chosen):
                    sc.add(t == c)
            return chosen
        return v


def _run_reference(ctx, ids, src, n_subsets, max_factor, phase, string_for):
    B, D = fm94.load_tables()
    env = MenuEnv(ctx, max_factor=max_factor, max_diff_width=0)
    env.phase = phase
    env.string_for = string_for
    ref = ShapeRef(B, D, env, src, n_subsets=n_subsets, compressed=False)
    ref.run(ids)
    return ref


def _realize_bits(ctx, src, n):
    if ctx.mode != 'explore':
        return [src.peek(k, 1) for k in range(n)]
    with NoTracing():
        terms = src.src.store.bit_terms(0, n)
        return [int(sc.model_value(t)) for t in terms]


def collect(nodes, order):
    """Document order of the hierarchical view: (flat index) of factors, associated fields and members."""
    for node in nodes:
        if getattr(node, 'factor', None) is not None:
            _value(node.factor, order)
        if hasattr(node, 'index'):
            _value(node, order)
        if hasattr(node, 'members'):
            collect(node.members, order)


def _value(node, order):
    for a in getattr(node, 'attributes', []):
        if type(a).__name__ == 'AssociatedFieldNode':
            order.append(a.index)
    order.append(node.index)


def _check_message(ctx, ids, bits, n_subsets):
    """Everything below runs the real code on concrete data."""
    from pybufrkit.renderer import FlatTextRenderer, NestedTextRenderer, FlatJsonRenderer, NestedJsonRenderer
    from pybufrkit.utils import nested_json_to_flat_json, flat_text_to_flat_json, nested_text_to_flat_json
    blob = msgbuild.message_bytes(ids, bits, n_subsets=n_subsets)
    ctx.note('message', blob)
    try:
        msg = pbk.decoder().process(blob)
    except Exception as e:
        return {'what': 'decoder raised on a well-formed message', 'exc': repr(e)[:300]}
    flat = FlatJsonRenderer().render(msg)
    td = msg.template_data.value
    for s in range(n_subsets):
        order = []
        collect(td.decoded_nodes_all_subsets[s], order)
        n = len(td.decoded_values_all_subsets[s])
        if sorted(order) != list(range(n)):
            missing = sorted(set(range(n)) - set(order))
            dup = sorted(i for i in set(order) if order.count(i) > 1)
            return {'what': 'hierarchical view does not contain every value exactly once', 'subset': s, 'missing': missing, 'twice': dup}
        if order != list(range(n)):
            return {'what': 'document order of the hierarchical view is not the flat order', 'subset': s, 'order': order}
    for name, render, convert in (('flat text', FlatTextRenderer(), flat_text_to_flat_json),
                                  ('nested json', NestedJsonRenderer(), nested_json_to_flat_json),
                                  ('nested text', NestedTextRenderer(), nested_text_to_flat_json)):
        try:
            text = render.render(msg)
        except Exception as e:
            return {'what': '%s rendering raised' % name, 'exc': repr(e)[:300]}
        try:
            back = convert(text)
        except Exception as e:
            return {'what': '%s cannot be converted back' % name, 'exc': repr(e)[:300],
                    'values': repr(flat[-2][-1])[:400]}
        if back != flat:
            where = None
            for si, (a, b) in enumerate(zip(back, flat)):
                if a != b:
                    where = si
                    break
            return {'what': '%s converts back to different data' % name, 'section': where,
                    'got': repr(back[where] if where is not None else back)[:500], 'exp': repr(flat[where] if where is not None else flat)[:500]}
    try:
        again = pbk.encoder().process(flat)
    except Exception as e:
        return {'what': 'flat JSON does not encode', 'exc': repr(e)[:300]}
    # "the same BUFR bytes" of the property means the same for the four formats (they all convert to `flat`); the bytes must
    # carry the same data again.  Equality with the ORIGINAL bytes is not demanded here: a foreign stream may be
    # non-canonical (e.g. a 203YYY reference value written as negative zero) - that is C03's fixpoint statement.
    try:
        msg2 = pbk.decoder().process(again.serialized_bytes)
        flat2 = FlatJsonRenderer().render(msg2)
    except Exception as e:
        return {'what': 'the bytes encoded from the flat form do not decode', 'exc': repr(e)[:300]}
    if flat2 != flat:
        return {'what': 'encoding the flat form and decoding it again gives different data'}
    if pbk.encoder().process(flat2).serialized_bytes != again.serialized_bytes:
        return {'what': 'encoding is not deterministic on the same flat form'}
    return None


def h_shapes(ctx):
    p = ctx.params
    fam = family(p)
    ids = fam['ids']
    n_subsets = p.get('n_subsets', 1)
    phase = ctx.choice('phase', p.get('phases', 3))
    src = ctx.source('S', p.get('nbits', 2048))
    scount = [phase]

    def string_for(nbytes):
        s = STRINGS[scount[0] % len(STRINGS)]
        scount[0] += 1
        return (s + b' ' * nbytes)[:nbytes]
    try:
        ref = _run_reference(ctx, ids, src, n_subsets, p.get('max_factor', fam.get('max_factor', 2)), phase, string_for)
    except fm94.RefMalformed:
        ctx.witness('malformed')
        return None
    bits = _realize_bits(ctx, src, ref.pos)
    with NoTracing():
        d = _check_message(ctx, ids, bits, n_subsets)
    if d:
        return d
    ctx.witness('shape')
    return None


ALPHABET = [0x27, 0x22, 0x20, 0x62, 0x5c, 0x41, 0xe9, 0x23]   # ' " space b \ A e-acute #


def h_strings(ctx):
    """One character field of Y bytes (205YYY and a table element), every byte solver-chosen from the alphabet."""
    p = ctx.params
    y = p.get('nbytes', 2)
    ids = [1004, 205000 + y, 2001] if p.get('op205', True) else [1004, 11, 2001]
    src = ctx.source('S', 256)
    chars = [ALPHABET[ctx.choice('c%d' % i, len(ALPHABET))] for i in range(y)]
    scount = [0]

    def string_for(nbytes):
        return bytes(chars[:nbytes])
    ref = _run_reference(ctx, ids, src, 1, 0, 0, string_for)
    bits = _realize_bits(ctx, src, ref.pos)
    with NoTracing():
        d = _check_message(ctx, ids, bits, 1)
    if d:
        d['string'] = repr(bytes(chars))
        return d
    ctx.witness('string')
    return None
