"""
C10 - subsetting keeps exactly the selected subsets and nothing else changes.

A whole message (independently assembled, 3 subsets, data section = solver bits, a few identification fields solver
integers) is decoded by the real Decoder.process; BufrMessage.subset is called with a solver-chosen index collection
(length 1..3, every index a solver integer in -1..n, so repeats, any order, first/last and out-of-range-by-one are all
covered); the result goes through the real Encoder.process and Decoder.process again.

Oracle: count = number of distinct indices; i-th subset = values (FM-94 reference reading of the source bits) of the
i-th smallest selected index, up to "all ones == missing"; template / identification / compression flag unchanged;
source object unchanged; an index outside 0..n-1 is refused with a PyBufrKitError.
"""
from vlib import pbk, fm94, msgbuild, symcore as sc

TEMPLATES = {
    'u-plain': dict(ids=[1004, 12001], compressed=False),
    'u-delayed': dict(ids=[101000, 31001, 1004, 2001], compressed=False, max_factor=1),
    'u-str': dict(ids=[10, 1004], compressed=False),
    'c-one': dict(ids=[1004], compressed=True),
    'c-two': dict(ids=[2001, 12001], compressed=True),
    'c-str': dict(ids=[10], compressed=True),
}


def prepare(params):
    fm94.load_tables()
    pbk.warm_tables()
    pbk.decoder()
    pbk.encoder()


def _snapshot(msg):
    out = []
    for section in msg.sections:
        for p in section:
            v = p.value
            if p.type == 'template_data':
                v = [list(x) for x in v.decoded_values_all_subsets]
            elif isinstance(v, list):
                v = list(v)
            out.append((p.name, v))
    return out


def _same_snapshot(a, b):
    if len(a) != len(b):
        return False
    for (n1, v1), (n2, v2) in zip(a, b):
        if n1 != n2:
            return False
        if n1 == 'template_data':
            if len(v1) != len(v2):
                return False
            for s1, s2 in zip(v1, v2):
                if len(s1) != len(s2) or not all(fm94.same(x, y) for x, y in zip(s1, s2)):
                    return False
        elif isinstance(v1, list):
            if v1 != v2:
                return False
        elif not (v1 == v2):
            return False
    return True


def h_subset(ctx):
    from pybufrkit.errors import PyBufrKitError
    p = ctx.params
    t = TEMPLATES[p['template']]
    ids, compressed = t['ids'], t['compressed']
    n = p.get('n_subsets', 3)
    nbits = p.get('nbits', 96)
    opts = {'string_alphabet': [0x00, 0x41, 0xff]} if 'str' in p['template'] else {}
    data = ctx.source('D', nbits, **opts)
    try:
        ref = fm94.reference_decode(ctx, ids, data, n_subsets=n, compressed=compressed, in_range=True, string_width_exact=True,
                                    max_factor=t.get('max_factor', 1), max_diff_width=p.get('max_diff_width', 1),
                                    no_missing=p.get('no_missing', False))
    except fm94.RefMalformed:
        ctx.witness('malformed')
        return None
    used = ref.pos
    hdr = dict(centre=ctx.int('centre', 0, 65535), category=ctx.int('category', 0, 10), year=ctx.int('year', 1990, 2030))
    uhdr = {k: sc.unwrap(v) for k, v in hdr.items()}
    parts, total = msgbuild.message_parts(ids, [('lazy', 'D', used)], used, n_subsets=n, compressed=compressed, **uhdr)
    # the data part must be the very bits the reference read: splice the source store in place of the lazy placeholder
    parts = [data if (isinstance(q, tuple) and q[0] == 'lazy') else q for q in parts]
    blob = _assemble(ctx, parts, used, opts)
    try:
        msg = pbk.decoder().process(blob, wire_template_data=False)
    except Exception as e:
        return {'what': 'decoder raised on a well-formed message', 'exc': repr(e)[:300]}
    before = _snapshot(msg)
    L = 1 + ctx.choice('n_indices', p.get('max_indices', 3))
    indices = [ctx.int('i%d' % k, -1, n) for k in range(L)]
    ctx.note('indices', indices)
    legal = all(bool(0 <= i) and bool(i < n) for i in indices)
    try:
        sub = msg.subset(list(indices))
    except PyBufrKitError:
        if legal:
            return {'what': 'a legal index collection was refused', 'indices': indices}
        ctx.witness('refused')
        return None
    except Exception as e:
        return {'what': 'subset raised a non-library error', 'exc': repr(e)[:200], 'indices': indices}
    if not legal:
        return {'what': 'an index outside 0..n-1 was not refused', 'indices': indices, 'n': n}
    if not _same_snapshot(before, _snapshot(msg)):
        return {'what': 'the source message was modified by subset()', 'indices': indices}
    # the distinct selected indices in increasing order (concrete now: the comparisons above decided them)
    chosen = sorted({ctx.concrete(i, 0, n - 1) for i in indices})
    try:
        m2 = pbk.encoder().process(sub, wire_template_data=False)
    except Exception as e:
        return {'what': 'the extracted data does not encode', 'exc': repr(e)[:300], 'indices': chosen, 'given': len(indices)}
    out = m2.serialized_bytes
    try:
        m3 = pbk.decoder().process(ctx.input_from([out], **opts), wire_template_data=False)
    except Exception as e:
        return {'what': 'the encoded subset message does not decode', 'exc': repr(e)[:300]}
    if not (m3.n_subsets.value == len(chosen)):
        return {'what': 'subset count is not the number of distinct selected indices', 'got': m3.n_subsets.value, 'exp': len(chosen)}
    got = m3.template_data.value.decoded_values_all_subsets
    if len(got) != len(chosen):
        return {'what': 'number of subsets carried', 'got': len(got), 'exp': len(chosen)}
    for k, s in enumerate(chosen):
        items = ref.outs[s].items
        if len(got[k]) != len(items):
            return {'what': 'value count', 'subset': k}
        for j, (g, it) in enumerate(zip(got[k], items)):
            if fm94.same(g, it.value):
                continue
            if g is None and it.enc is not None and it.value is not None:
                w, r, den = it.enc
                num = it.value.num if isinstance(it.value, sc.Quot) else (it.value if den == 1 else None)
                if num is not None and bool(num - r == (1 << w) - 1):
                    continue     # all ones == missing (FM-94)
            return {'what': 'i-th subset does not carry the values of the i-th smallest selected index', 'new_subset': k,
                    'source_subset': s, 'index': j, 'got': g, 'exp': it.value}
    # nothing else changes
    for name in ('edition', 'master_table_number', 'originating_centre', 'originating_subcentre', 'data_category',
                 'master_table_version', 'local_table_version', 'year', 'month', 'day', 'hour', 'minute', 'second',
                 'is_compressed', 'is_observation', 'is_section2_presents'):
        a, b = getattr(msg, name).value, getattr(m3, name).value
        if not (a == b):
            return {'what': 'identification / flags changed', 'name': name, 'before': a, 'after': b}
    if list(m3.unexpanded_descriptors.value) != list(ids):
        return {'what': 'template changed', 'got': list(m3.unexpanded_descriptors.value)}
    if not (m3.length.value == len(out)):
        return {'what': 'length of the new message'}
    ctx.witness('subset-%d' % len(chosen))
    return None


def _assemble(ctx, parts, used, opts):
    """parts with a source handle in place of the data -> input for Decoder.process (SymBytes / bytes)."""
    if ctx.mode == 'explore':
        from vlib.model import bitstring as M
        from vlib.symbytes import SymBytes
        from crosshair.tracers import NoTracing
        with NoTracing():
            st = M.Store()
            for q in parts:
                if isinstance(q, (bytes, bytearray)):
                    for byte in bytes(q):
                        st.append(M.Seg(8, byte))
                elif isinstance(q, tuple):
                    st.append(M.Seg(q[2], q[1]))
                else:   # the data source handle: exactly the bits the reference consumed
                    for seg in q.src.store.segments_between(0, used):
                        st.append(seg)
            st.opts = opts
            return SymBytes(st)
    conc = []
    for q in parts:
        if isinstance(q, (bytes, bytearray, tuple)):
            conc.append(q)
        else:
            conc.extend(msgbuild.bits_to_parts([q.peek(k, 1) for k in range(used)]))
    return msgbuild.parts_to_bytes(conc)
