"""
C11 - a byte stream is split into exactly the messages it contains.

Real code executed: generate_bufr_message (full and info-only, with and without filter_expr), Decoder.process on every
message, ScriptRunner(mode='eval') / process_embedded_query_expr / MetadataQuerent for the filter.  The stream is a
SymBytes object: independently assembled messages (mixed editions, section 2, compressed) whose data sections are
solver bits (a 4-byte character payload may spell BUFR or 7777), separated by separators of solver-chosen length whose
bytes are solver variables constrained only not to contain the start signature; data_category of each message is a
solver integer (the filter's subject).
"""
from vlib import pbk, fm94, streams, symcore as sc

FILTERS = ['${%data_category} == 2', '${%data_category} > 100 or ${%edition} == 3', 'not ${%is_compressed}',
           '${%3.n_subsets} == 2']


def prepare(params):
    fm94.load_tables()
    for mtv in (33,):
        pbk.warm_tables(mtv)
    pbk.decoder()


def _expected(ctx, msgs, flt):
    """Which messages the filter admits (decided with the solver on the category terms)."""
    out = []
    for m in msgs:
        cat, spec = m.category, m.spec
        if flt is None:
            keep = True
        elif flt == 0:
            keep = bool(cat == 2)
        elif flt == 1:
            keep = bool(cat > 100) or spec['edition'] == 3
        elif flt == 2:
            keep = not spec['compressed']
        else:
            keep = spec['n_subsets'] == 2
        out.append(keep)
    return out


def h_split(ctx):
    from pybufrkit.decoder import generate_bufr_message
    p = ctx.params
    names = p['msgs']
    info_only = bool(p.get('info_only'))
    flt = p.get('filter')
    msgs = [streams.build(ctx, nm, str(k)) for k, nm in enumerate(names)]
    parts, offsets, pos = [], [], 0
    for k, m in enumerate(msgs):
        sep, n = streams.separator(ctx, str(k), tuple(p.get('sep_lengths', (0, 1, 4))))
        parts += sep
        pos += n
        offsets.append(pos)
        parts += streams.msg_parts(m)
        pos += m.nbytes
    sep, n = streams.separator(ctx, 'T', tuple(p.get('sep_lengths', (0, 1, 4))))
    parts += sep
    stream = streams.flatten_parts(ctx, parts)
    keep = _expected(ctx, msgs, flt)
    got = []
    try:
        for bm in generate_bufr_message(pbk.decoder(), stream, info_only=info_only,
                                        filter_expr=None if flt is None else FILTERS[flt]):
            got.append(bm)
            if len(got) > len(msgs) + 1:
                break
    except Exception as e:
        return {'what': 'scanning a stream of valid messages raised', 'exc': repr(e)[:300], 'delivered': len(got)}
    exp = [k for k, kp in enumerate(keep) if kp]
    if len(got) != len(exp):
        return {'what': 'number of messages delivered', 'got': len(got), 'exp': len(exp), 'offsets': offsets,
                'lengths': [len(b.serialized_bytes) for b in got]}
    for bm, k in zip(got, exp):
        m = msgs[k]
        a, b = offsets[k], offsets[k] + m.nbytes
        if len(bm.serialized_bytes) != m.nbytes or not (bm.serialized_bytes == stream[a:b]):
            return {'what': 'a delivered message does not carry exactly its own bytes', 'message': k,
                    'got_len': len(bm.serialized_bytes), 'exp_len': m.nbytes}
        if not (bm.data_category.value == m.category) or bm.edition.value != m.spec['edition']:
            return {'what': 'metadata of the delivered message', 'message': k}
        if not info_only:
            td = bm.template_data.value
            for s in range(m.spec['n_subsets']):
                d = fm94.compare_subset(pbk.labels(td.decoded_descriptors_all_subsets[s]), td.decoded_values_all_subsets[s],
                                        td.bitmap_links_all_subsets[s], m.ref.outs[s])
                if d:
                    d['message'] = k
                    return d
    # writing the pieces out and concatenating them reproduces the messages
    total = sum(len(b.serialized_bytes) for b in got)
    if total != sum(msgs[k].nbytes for k in exp):
        return {'what': 'concatenation length'}
    ctx.witness('split-%d' % len(got))
    return None


# ---------------------------------------------------------------------------------------------------------------
# every byte value in the length octets: messages whose TOTAL LENGTH is solver-chosen so that its octets are "special" bytes
# (newline, carriage return, NUL, '.', '$', backslash ...).  The stream is a real bytes object here (concrete content), so a
# scanner written with regular expressions or C-level searches is exercised as it is.

TOTALS = [266, 269, 256, 302, 292, 265, 267, 300]      # 0x010A 0x010D 0x0100 0x012E 0x0124 ...
SEPS = [b'', b'\n', b'BUF', b'\r\r\n7777']


def h_lengths(ctx):
    from pybufrkit.decoder import generate_bufr_message
    from vlib import msgbuild
    p = ctx.params
    n = p.get('n_msgs', 2)
    info_only = bool(ctx.choice('info_only', 2))
    totals = [TOTALS[ctx.choice('total%d' % k, len(TOTALS))] for k in range(n)]
    seps = [SEPS[ctx.choice('sep%d' % k, len(SEPS))] for k in range(n)] + [SEPS[ctx.choice('sepT', 2)]]
    if ctx.mode == 'explore':
        from crosshair.tracers import NoTracing
        with NoTracing():       # everything is concrete from here on: the real scanner and decoder run natively on a bytes object
            return _lengths_body(ctx, n, info_only, totals, seps)
    return _lengths_body(ctx, n, info_only, totals, seps)


def _lengths_body(ctx, n, info_only, totals, seps):
    from pybufrkit.decoder import generate_bufr_message
    from vlib import msgbuild
    base = msgbuild.layout([1004, 205001], 3 + 8, edition=4)[1] - 1
    blobs = []
    stream = b''
    for k in range(n):
        total = totals[k]
        y = total - base
        bits = [0, 0, 1]
        for ch in (b'A' * y):
            bits += [(ch >> (7 - j)) & 1 for j in range(8)]
        blob = msgbuild.message_bytes([1004, 205000 + y], bits, edition=4, category=k)
        if len(blob) != total:
            return {'what': 'harness: message length', 'got': len(blob), 'exp': total}
        stream += seps[k] + blob
        blobs.append(blob)
    stream += seps[n]
    got = []
    try:
        for bm in generate_bufr_message(pbk.decoder(), stream, info_only=info_only):
            got.append(bm.serialized_bytes)
            if len(got) > n + 1:
                break
    except Exception as e:
        return {'what': 'scanning a stream of valid messages raised', 'exc': repr(e)[:300], 'lengths': [len(b) for b in blobs]}
    if got != blobs:
        return {'what': 'the stream is not split into exactly its messages', 'got': [len(b) for b in got], 'exp': [len(b) for b in blobs],
                'info_only': info_only}
    ctx.witness('split')
    return None
