"""
C12 - damage is detected, reported as a library error, and isolated to one message.

h_prefix   no proper prefix of a valid message decodes: a whole message (solver data bits) is cut at a solver-chosen
           octet k (the bitstring model's end-of-data test is the fork point, so all cut points are covered by one
           path per read); Decoder.process must raise a PyBufrKitError for every k < length, and succeed at k = length.
h_stream   a stream of 2..3 messages, one of them (solver-chosen) damaged in a solver-chosen way while its total length
           stays intact - stop signature overwritten by arbitrary bytes != 7777, an undefined element / sequence
           descriptor substituted in section 3, the length of section 1 / 3 / 4 decreased or increased; scanned by the
           real generate_bufr_message, full and info-only, with and without continue_on_error.
h_main     pybufrkit.main's exception ladder: every library error class raised by a command is reported on stderr
           without a traceback (the class is a solver choice; the command is a stub that raises it).
"""
from vlib import pbk, fm94, streams, symcore as sc

ABSENT_IDS = [(0, 63, 250), (0, 1, 255), (3, 63, 255), (3, 1, 250)]   # not in master table 33


def prepare(params):
    fm94.load_tables()
    pbk.warm_tables()
    pbk.decoder()


def h_prefix(ctx):
    from pybufrkit.errors import PyBufrKitError
    p = ctx.params
    m = streams.build(ctx, p['msg'], '0')
    parts = streams.msg_parts(m)
    ntrail = ctx.choice('ntrail', 2)
    if ntrail:
        t = ctx.source('trail', 8 * ntrail)
        parts = parts + [('src', t, 8 * ntrail)]
    stream = streams.flatten_parts(ctx, parts)
    k = ctx.int('cut', 0, m.nbytes)
    if ctx.mode == 'explore':
        from crosshair.tracers import NoTracing
        with NoTracing():
            stream.store.limit = sc.unwrap(k) * 8
    else:
        stream = stream[:k]
    try:
        bm = pbk.decoder().process(stream, wire_template_data=False)
    except PyBufrKitError:
        if bool(k >= m.nbytes):
            return {'what': 'the complete message (followed by %d stray bytes) does not decode' % ntrail, 'cut': k}
        ctx.witness('prefix-refused')
        return None
    except Exception as e:
        return {'what': 'a truncated message raises something that is not the library error', 'exc': repr(e)[:200], 'cut': k,
                'length': m.nbytes}
    if bool(k < m.nbytes):
        return {'what': 'a proper prefix of a valid message decodes', 'cut': k, 'length': m.nbytes}
    td = bm.template_data.value
    for s in range(m.spec['n_subsets']):
        d = fm94.compare_subset(pbk.labels(td.decoded_descriptors_all_subsets[s]), td.decoded_values_all_subsets[s],
                                td.bitmap_links_all_subsets[s], m.ref.outs[s])
        if d:
            d['note'] = 'bytes that follow the message changed its decoding'
            return d
    if len(bm.serialized_bytes) != m.nbytes:
        return {'what': 'trailing bytes counted into the message'}
    ctx.witness('whole')
    return None


def _damage(ctx, m, kind):
    """Return the parts of message m with the chosen damage applied (total length intact)."""
    parts = list(streams.msg_parts(m))
    spec = m.spec
    if kind == 'stop':
        h = ctx.source('stop', 32)
        if ctx.mode == 'explore':
            import z3
            b = [sc.unwrap(h.peek(8 * j, 8)) for j in range(4)]
            sc.add(z3.Not(z3.And(*[x == 0x37 for x in b])))
        assert parts[-1] == b'7777'
        parts[-1] = ('src', h, 32)
        return parts, None
    idx3 = m.parts.first_descriptor      # msg_parts keeps the positions of message_parts
    if kind == 'descriptor':
        f, x, y = ABSENT_IDS[ctx.choice('absent', len(ABSENT_IDS))]
        parts[idx3] = bytes([(f << 6) | x, y])
        return parts, None
    # section length fields are ('val', L, 24) entries; section 0's is parts[1]
    len_idx = [i for i, q in enumerate(parts) if isinstance(q, tuple) and q[0] == 'val' and q[2] == 24][1:]
    which = {'len1': 0, 'len3': -2, 'len4': -1}[kind]
    i = len_idx[which]
    delta = [-2, -1, 1, 2][ctx.choice('delta', 4)]
    parts[i] = ('val', parts[i][1] + delta, 24)
    return parts, delta


def h_stream(ctx):
    from pybufrkit.decoder import generate_bufr_message
    from pybufrkit.errors import PyBufrKitError
    p = ctx.params
    names = p['msgs']
    info_only = bool(p.get('info_only'))
    cont = bool(p.get('continue_on_error', True))
    kinds = p.get('kinds', ['stop', 'descriptor', 'len1', 'len3', 'len4'])
    msgs = [streams.build(ctx, nm, str(k)) for k, nm in enumerate(names)]
    bad = ctx.choice('damaged', len(msgs))
    kind = kinds[ctx.choice('kind', len(kinds))]
    parts, offsets, pos = [], [], 0
    for k, m in enumerate(msgs):
        if k == bad:
            dp, delta = _damage(ctx, m, kind)
            parts += dp
        else:
            parts += streams.msg_parts(m)
        offsets.append(pos)
        pos += m.nbytes
    stream = streams.flatten_parts(ctx, parts)
    ctx.note('damage', [bad, kind])
    # info-only scanning reads sections 0-3 only and never builds the template: damage to section 4 or 5, or an
    # undefined descriptor, is invisible to it by construction (all messages are then delivered, by declared length)
    visible = not (info_only and kind in ('stop', 'len4', 'descriptor'))
    got, err = [], None
    try:
        for bm in generate_bufr_message(pbk.decoder(), stream, info_only=info_only, continue_on_error=cont):
            got.append(bm)
            if len(got) > len(msgs) + 1:
                break
    except PyBufrKitError as e:
        err = e
    except Exception as e:
        return {'what': 'damage surfaces as something other than the library error', 'exc': repr(e)[:300], 'kind': kind,
                'damaged': bad, 'continue_on_error': cont, 'info_only': info_only}
    if not visible:
        exp = list(range(len(msgs)))
    elif cont:
        exp = [k for k in range(len(msgs)) if k != bad]
    else:
        exp = list(range(bad))
    if cont and err is not None:
        return {'what': 'error escaped despite continue_on_error', 'exc': repr(err)[:200], 'kind': kind}
    if visible and not cont and err is None:
        # a length change in a section can leave a message that still parses (e.g. section 1 shorter by the octets
        # it never uses): damage that the format itself cannot detect is not demanded
        if kind in ('len1', 'len3', 'len4'):
            ctx.witness('undetectable')
            return None
        return {'what': 'damage was not reported', 'kind': kind, 'damaged': bad, 'delivered': len(got)}
    if visible and cont and len(got) == len(msgs) and kind in ('len1', 'len3', 'len4'):
        ctx.witness('undetectable')
        return None
    if len(got) != len(exp):
        return {'what': 'wrong number of messages delivered around a damaged one', 'got': len(got), 'exp': len(exp), 'kind': kind,
                'damaged': bad, 'continue_on_error': cont, 'info_only': info_only,
                'lengths': [len(b.serialized_bytes) for b in got]}
    for bm, k in zip(got, exp):
        m = msgs[k]
        a = offsets[k]
        if len(bm.serialized_bytes) != m.nbytes or not (bm.serialized_bytes == stream[a:a + m.nbytes]):
            return {'what': 'an undamaged message is not delivered unchanged', 'message': k, 'kind': kind}
        if not info_only and k != bad:
            td = bm.template_data.value
            for s in range(m.spec['n_subsets']):
                d = fm94.compare_subset(pbk.labels(td.decoded_descriptors_all_subsets[s]), td.decoded_values_all_subsets[s],
                                        td.bitmap_links_all_subsets[s], m.ref.outs[s])
                if d:
                    d['message'] = k
                    return d
    ctx.witness('isolated' if cont else 'surfaced')
    return None


def h_main(ctx):
    """Every library error raised by a command is printed on stderr by main(), no traceback, no exception."""
    import io
    import sys
    import pybufrkit
    from pybufrkit import errors
    classes = [errors.PyBufrKitError, errors.UnknownDescriptor, errors.BitReadError, errors.PathExprParsingError,
               errors.MetadataExprParsingError, errors.QueryError]
    cls = classes[ctx.choice('class', len(classes))]
    cmd = ['decode', 'info', 'split', 'subset', 'query', 'script'][ctx.choice('command', 6)]
    if ctx.mode == 'explore':
        from crosshair.tracers import NoTracing
        with NoTracing():     # argparse / print / StringIO: nothing symbolic below, run it natively
            return _main_case(ctx, cls, cmd)
    return _main_case(ctx, cls, cmd)


def _main_case(ctx, cls, cmd):
    import io
    import sys
    import pybufrkit

    def boom(ns):
        raise cls('boom')
    saved = {n: getattr(pybufrkit, n) for n in dir(pybufrkit) if n.startswith('command_')}
    argv, out, err = sys.argv, sys.stdout, sys.stderr
    try:
        for n in saved:
            setattr(pybufrkit, n, boom)
        extra = {'decode': ['x'], 'info': ['x'], 'split': ['x'], 'subset': ['0', 'x'], 'query': ['001001', 'x'], 'script': ['1', 'x']}[cmd]
        sys.argv = ['pybufrkit', cmd] + extra
        sys.stdout, sys.stderr = io.StringIO(), io.StringIO()
        try:
            pybufrkit.main()
        except SystemExit as e:
            return {'what': 'main() exits instead of reporting', 'code': repr(e.code), 'stderr': sys.stderr.getvalue()[:200]}
        except Exception as e:
            return {'what': 'library error escapes main() (traceback on the command line)', 'class': cls.__name__, 'exc': repr(e)[:100]}
        text = sys.stderr.getvalue()
    finally:
        sys.argv, sys.stdout, sys.stderr = argv, out, err
        for n, f in saved.items():
            setattr(pybufrkit, n, f)
    if 'boom' not in text or 'Traceback' in text:
        return {'what': 'error not reported cleanly', 'stderr': text[:200]}
    ctx.witness('reported')
    return None


# ---------------------------------------------------------------------------------------------------------------
# a section-3 length increased by 2k octets makes the decoder take k extra "descriptors" from the bytes that follow
# (the head of section 4): the descriptor list becomes arbitrary.  Here those extra descriptors are solver-chosen from a
# menu of every descriptor kind, the data bits are solver variables, compressed or not: whatever the decoder makes of the
# garbled message, the only exception it may raise is the library's own error type.

GARBLE_MENU = [1004, 12001, 10, 31001, 31031, 101000, 102000, 103002, 201130, 201000, 203010, 203255, 204002, 204000, 206008,
               207001, 208002, 221002, 222000, 223000, 223255, 224255, 225255, 232255, 235000, 236000, 237000, 237255,
               301001, 63255, 363255, 0]
# operators 241-243 and delayed repetition (031011/031012) raise NotImplementedError by documented design: not in the menu
FIRST_MENU = [101000, 102000, 204002, 206008, 203010, 222000, 1004]
_SEEN_SITES = set()


def _site(exc):
    """innermost pybufrkit function the exception came from"""
    import traceback
    fn = '?'
    for fr in traceback.extract_tb(exc.__traceback__):
        if '/pybufrkit/' in fr.filename:
            fn = '%s:%s' % (fr.filename.split('/')[-1], fr.name)
    return fn


def h_garbled(ctx):
    from pybufrkit.errors import PyBufrKitError
    from vlib import msgbuild
    p = ctx.params
    base = p.get('base', [])
    k = p.get('n_extra', 1)
    menu = p.get('menu', GARBLE_MENU)
    # two extra descriptors: the first from the short menu of descriptors that set up a context for the second
    extras = [(FIRST_MENU if (k == 2 and i == 0) else menu)[ctx.choice('extra%d' % i, len(FIRST_MENU if (k == 2 and i == 0) else menu))]
              for i in range(k)]
    compressed = bool(p.get('compressed'))
    n_subsets = 2 if compressed else 1
    ids = list(base) + extras
    nbits = p.get('nbits', 64)
    data = ctx.source('D', nbits)
    parts, total = msgbuild.message_parts(ids, [('src', data, nbits)], nbits, n_subsets=n_subsets, compressed=compressed, edition=4)
    stream = streams.flatten_parts(ctx, list(parts), string_alphabet=[0x20, 0x41, 0xff, 0x00], concretize_width_fields=p.get('max_diff_width', 1))
    ctx.note('ids', ids)
    try:
        pbk.decoder().process(stream)
    except PyBufrKitError:
        ctx.witness('refused')
        return None
    except Exception as e:
        key = (type(e).__name__, _site(e))
        if key in _SEEN_SITES and ctx.mode == 'explore':
            ctx.witness('non-library-error-again')
            return None          # one report per (exception class, raising function) and job
        _SEEN_SITES.add(key)
        return {'what': 'a garbled message raises something that is not the library error', 'exc': key[0], 'site': key[1],
                'message': str(e)[:120], 'ids': ids, 'compressed': compressed}
    ctx.witness('decoded')
    return None
