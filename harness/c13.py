"""
C13 - no hidden state: results do not depend on what was processed before.

h_table_cache_step      one inductive step of the real TableGroupCache.get from an ARBITRARY invariant-satisfying
                        pre-state (any subset of K keys present - solver booleans - each filed under its own key), with
                        the limit a solver choice (1..3, and the real 50 with 49/50/51 entries); table construction is
                        stubbed to record the key.  Post: the group for the requested key is returned, every entry is
                        filed under its own key, size <= limit.  One step from any valid state covers histories of any length.
h_compiled_cache_step   the same for CompiledTemplateManager.get_or_compile (compiler stubbed), cache_max 0..3.
h_history               end to end: decode A fresh, then a solver-chosen sequence of 1..2 other operations on the SAME
                        decoder / encoder objects with both cache limits forced to 1 (decode B under another table
                        version, failing decode of a truncated B, query + render A, encode A, decode A compiled),
                        then decode A again: values, labels, links, renderings and query results must equal the first.
"""
from vlib import pbk, fm94, streams, symcore as sc


def prepare(params):
    fm94.load_tables()
    pbk.warm_tables()


class _StubTable(object):
    def __init__(self, key, *rest):
        # TableD(b, c, r, key, extra): the key is the 4th argument there
        self.key = key if not isinstance(key, _StubTable) else rest[2]


class _StubGroup(object):
    def __init__(self, a, b, c, d, r):
        self.key = a.key
        self.tables = (a, b, c, d, r)
        self.consistent = all(t.key == a.key for t in (a, b, c, d, r))


def h_table_cache_step(ctx):
    import pybufrkit.tables as T
    p = ctx.params
    K = p.get('keys', 4)
    keys = [T.TableGroupKey('/root', ('0', '0_0', str(20 + k)), None) for k in range(K)]
    if p.get('real_limit'):
        limit = T.MAXIMUM_NUMBER_OF_CACHED_TABLE_GROUPS
        extra = [T.TableGroupKey('/root', ('0', '0_0', str(100 + k)), None) for k in range(limit + 1)]
        n_pre = limit - 1 + ctx.choice('fill', 2)         # 49 or 50 entries already present
        present = extra[:n_pre]
        req = (keys + present[:1])[ctx.choice('request', K + 1)]
    else:
        limit = 1 + ctx.choice('limit', 3)
        present = [k for i, k in enumerate(keys) if ctx.bool('has%d' % i)]
        ctx.assume(len(present) <= limit)                  # representation invariant of every reachable state
        req = keys[ctx.choice('request', K)]
    saved = (T.TableA, T.TableB, T.TableC, T.TableR, T.TableD, T.BufrTableGroup, T.MAXIMUM_NUMBER_OF_CACHED_TABLE_GROUPS)
    try:
        T.TableA = T.TableB = T.TableC = T.TableR = T.TableD = _StubTable
        T.BufrTableGroup = _StubGroup
        T.MAXIMUM_NUMBER_OF_CACHED_TABLE_GROUPS = limit
        cache = T.TableGroupCache()
        for k in present:
            cache._groups[k] = _StubGroup(*[_StubTable(k)] * 5)
        was_present = req in cache._groups
        old = cache._groups.get(req)
        try:
            g = cache.get(req)
        except Exception as e:
            return {'what': 'TableGroupCache.get raised', 'exc': repr(e)[:200], 'present': len(present), 'limit': limit}
        if g.key != req or not g.consistent:
            return {'what': 'the table group returned is not the one for the requested key', 'requested': req[1][2], 'got': g.key[1][2]}
        if was_present and g is not old:
            return {'what': 'a cached group was rebuilt'}
        if len(cache._groups) > limit:
            return {'what': 'cache exceeds its limit', 'size': len(cache._groups), 'limit': limit}
        for k, v in cache._groups.items():
            if v.key != k:
                return {'what': 'cache entry filed under a foreign key'}
        if cache._groups.get(req) is not g:
            return {'what': 'the group just returned is not cached under its key'}
    finally:
        (T.TableA, T.TableB, T.TableC, T.TableR, T.TableD, T.BufrTableGroup, T.MAXIMUM_NUMBER_OF_CACHED_TABLE_GROUPS) = saved
    ctx.witness('hit' if was_present else 'miss')
    return None


class _FakeTemplate(object):
    def __init__(self, ids):
        self.original_descriptor_ids = list(ids)


class _FakeGroup(object):
    def __init__(self, key):
        self.key = key


def h_compiled_cache_step(ctx):
    from pybufrkit.templatecompiler import CompiledTemplateManager
    p = ctx.params
    cache_max = ctx.choice('cache_max', 4)
    pool = [([1001], 'v33'), ([1001], 'v25'), ([1001, 1002], 'v33'), ([301001], 'v33')]
    mgr = CompiledTemplateManager(cache_max)

    class Compiler(object):
        def process(self, template, table_group):
            return ('compiled', tuple(template.original_descriptor_ids), table_group.key)
    mgr.template_compiler = Compiler()
    present = [k for i, k in enumerate(pool) if ctx.bool('has%d' % i)]
    ctx.assume(len(present) <= cache_max)
    for ids, tk in present:
        mgr.cache[(tuple(ids), tk)] = ('compiled', tuple(ids), tk)
    ids, tk = pool[ctx.choice('request', len(pool))]
    try:
        ct = mgr.get_or_compile(_FakeTemplate(ids), _FakeGroup(tk))
    except Exception as e:
        return {'what': 'get_or_compile raised', 'exc': repr(e)[:200], 'cache_max': cache_max, 'present': len(present)}
    if ct != ('compiled', tuple(ids), tk):
        return {'what': 'a compiled template of another template / table group was returned', 'requested': [ids, tk], 'got': list(ct[1:])}
    if len(mgr.cache) > cache_max:
        return {'what': 'compiled-template cache exceeds its limit', 'size': len(mgr.cache), 'limit': cache_max}
    for k, v in mgr.cache.items():
        if (v[1], v[2]) != k:
            return {'what': 'cache entry filed under a foreign key'}
    ctx.witness('step')
    return None


# ---------------------------------------------------------------------------------------------------------------

def _observe(ctx, bm, spec):
    """Everything a user can see of a decoded message."""
    from pybufrkit.renderer import NestedJsonRenderer, FlatJsonRenderer
    from pybufrkit.dataquery import DataQuerent, NodePathParser
    td = bm.template_data.value
    out = {'labels': [pbk.labels(d) for d in td.decoded_descriptors_all_subsets],
           'values': [list(v) for v in td.decoded_values_all_subsets],
           'links': [dict(l) for l in td.bitmap_links_all_subsets],
           # what the text renderings print next to each label: the width actually in force for that value
           'widths': [[getattr(d, 'nbits', None) for d in ds] for ds in td.decoded_descriptors_all_subsets],
           'key': bm.table_group_key}
    out['nested'] = NestedJsonRenderer().render(bm)[-2][-1]['value']
    out['flat'] = FlatJsonRenderer().render(bm)[-2][-1]
    q = DataQuerent(NodePathParser()).query(bm, '%06d' % [i for i in spec['ids'] if i < 100000 and i // 1000 != 31][0])
    out['query'] = q.all_values(flat=True)
    return out


def _eq(a, b):
    if isinstance(a, dict) and isinstance(b, dict):
        return set(a) == set(b) and all(_eq(a[k], b[k]) for k in a)
    if isinstance(a, (list, tuple)) and isinstance(b, (list, tuple)):
        return len(a) == len(b) and all(_eq(x, y) for x, y in zip(a, b))
    if isinstance(a, (dict, list, tuple)) or isinstance(b, (dict, list, tuple)):
        return False
    if a is None or b is None or isinstance(a, (bytes, sc.SymSeq, sc.Quot, float)) or isinstance(b, (bytes, sc.SymSeq, sc.Quot, float)):
        return fm94.same(a, b)
    return bool(a == b)


def _native_loading():
    """Table files are loaded natively (json under tracing is very slow): a stub around the table constructors."""
    import pybufrkit.tables as T
    from crosshair.tracers import NoTracing
    if getattr(T, '_verif_native', False):
        return
    orig = T.TableGroupCache.get

    def get(self, key):
        if key in self._groups:
            return orig(self, key)
        with NoTracing():
            return orig(self, key)
    T.TableGroupCache.get = get
    T._verif_native = True


OPS = ['decode-other-version', 'failing-decode', 'query-render', 'encode', 'decode-compiled', 'decode-third-version']


def h_history(ctx):
    import pybufrkit.tables as T
    from pybufrkit.decoder import Decoder
    from pybufrkit.encoder import Encoder
    from pybufrkit.errors import PyBufrKitError
    from pybufrkit.renderer import FlatJsonRenderer
    p = ctx.params
    if ctx.mode == 'explore':
        _native_loading()
    saved_limit = T.MAXIMUM_NUMBER_OF_CACHED_TABLE_GROUPS
    T.MAXIMUM_NUMBER_OF_CACHED_TABLE_GROUPS = p.get('table_limit', 1)
    cache_max = p.get('cache_max', 1)
    try:
        T.TableGroupCacheManager.invalidate()
        a = streams.build(ctx, p.get('msg', 'A'), 'a', category=2)
        b = streams.build(ctx, p.get('other', 'D'), 'b', category=3, mtv=25)
        c = streams.build(ctx, 'C', 'c', category=4, mtv=29)
        A = streams.flatten_parts(ctx, streams.msg_parts(a))
        B = streams.flatten_parts(ctx, streams.msg_parts(b))
        C = streams.flatten_parts(ctx, streams.msg_parts(c))
        dec = Decoder(compiled_template_cache_max=cache_max if p.get('compiled') else None)
        dec_c = Decoder(compiled_template_cache_max=cache_max)
        enc = Encoder(compiled_template_cache_max=cache_max)
        try:
            first = dec.process(A)
        except Exception as e:
            return {'what': 'fresh decode raised', 'exc': repr(e)[:200]}
        ref = _observe(ctx, first, a.spec)
        n_ops = 1 + ctx.choice('n_ops', p.get('max_ops', 2))
        history = []
        for k in range(n_ops):
            op = OPS[ctx.choice('op%d' % k, len(OPS))]
            history.append(op)
            try:
                if op == 'decode-other-version':
                    dec.process(B)
                elif op == 'decode-third-version':
                    dec.process(C)
                elif op == 'failing-decode':
                    try:
                        dec.process(B[:b.nbytes - 6])
                        return {'what': 'truncated message decoded'}
                    except PyBufrKitError:
                        pass
                elif op == 'query-render':
                    _observe(ctx, first, a.spec)
                elif op == 'encode':
                    enc.process(FlatJsonRenderer().render(first))
                elif op == 'decode-compiled':
                    dec_c.process(A)
                    dec_c.process(B)
            except Exception as e:
                return {'what': 'an intermediate operation raised', 'op': op, 'exc': repr(e)[:200], 'history': history}
        ctx.note('history', history)
        try:
            again = dec.process(A)
        except Exception as e:
            return {'what': 'decoding the message again raised', 'exc': repr(e)[:200], 'history': history}
        obs = _observe(ctx, again, a.spec)
        for k in ref:
            if not _eq(ref[k], obs[k]):
                return {'what': 'decoding after a history differs from the fresh decode', 'aspect': k, 'history': history}
        # the OTHER message decoded by the object with this history equals its decode by a brand-new object
        try:
            late = _observe(ctx, dec.process(B), b.spec)
            fresh = _observe(ctx, Decoder(compiled_template_cache_max=cache_max if p.get('compiled') else None).process(B), b.spec)
        except Exception as e:
            return {'what': 'decoding the other message raised', 'exc': repr(e)[:200], 'history': history}
        for k in late:
            if not _eq(late[k], fresh[k]):
                return {'what': 'a decoder that handled other messages before decodes differently from a new one', 'aspect': k,
                        'history': history}
        # and the first message object itself still renders the same
        obs1 = _observe(ctx, first, a.spec)
        for k in ref:
            if not _eq(ref[k], obs1[k]):
                return {'what': 'an earlier message object changed', 'aspect': k, 'history': history}
    finally:
        T.MAXIMUM_NUMBER_OF_CACHED_TABLE_GROUPS = saved_limit
        T.TableGroupCacheManager.invalidate()
    ctx.witness('history')
    return None
