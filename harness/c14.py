"""
C14 - templates are built from descriptor lists exactly as FM-94 prescribes.

h_grouping   a well-formed descriptor list is DERIVED by a bounded grammar whose every production is a solver choice
             (leaf kind, replication X and Y, nesting); the real template_from_ids must return exactly the derivation
             tree: a replication owns its class-31 factor when delayed and then the next X *flat* descriptors (nested
             replications, their factors and members all count towards the outer X), sequences are looked up in Table D,
             original_descriptor_ids gives the list back and flat_member_ids the full expansion.
h_unknown    an id that is in no table, at a solver-chosen place of a template, decoded from solver bits: decoding must
             fail with UnknownDescriptor exactly when the descriptor is reached (not skipped by 206YYY, not inside a
             replication repeated zero times).
h_selection  table-group selection for solver-chosen master table number / version, centre, sub-centre and local version:
             the group returned is the one the documented fall-back rules designate, with and without normalisation.
"""
import json
import os

from vlib import pbk, fm94, symcore as sc

LEAVES = [1004, 301001, 201130, 31001]      # element, sequence, operator, class-31 element used as plain data


def prepare(params):
    fm94.load_tables()
    pbk.warm_tables()
    pbk.decoder()


def _derive(ctx, budget, depth, tag, max_depth):
    """Derive items filling exactly `budget` flat slots.  Returns (flat ids, expected tree)."""
    flat, tree = [], []
    k = 0
    while budget > 0:
        # a replication needs its own slot plus at least one member (plus the factor when delayed)
        can_rep = depth < max_depth and budget >= 2
        kind = ctx.choice('%s.k%d' % (tag, k), len(LEAVES) + (1 if can_rep else 0))
        if kind < len(LEAVES):
            flat.append(LEAVES[kind])
            tree.append(('leaf', LEAVES[kind]))
            budget -= 1
        else:
            y = ctx.choice('%s.y%d' % (tag, k), 3)             # 0 = delayed
            room = budget - 1 - (1 if y == 0 else 0)
            if room < 1:
                ctx.assume(False)
            x = 1 + ctx.choice('%s.x%d' % (tag, k), room)       # 1..room flat descriptors
            rid = 100000 + x * 1000 + y
            flat.append(rid)
            factor = None
            if y == 0:
                factor = [31000, 31001, 31002][ctx.choice('%s.f%d' % (tag, k), 3)]
                flat.append(factor)
            sub_flat, sub_tree = _derive(ctx, x, depth + 1, '%s.%d' % (tag, k), max_depth)
            flat.extend(sub_flat)
            tree.append(('rep', rid, factor, sub_tree))
            budget -= 1 + (1 if y == 0 else 0) + x
        k += 1
    return flat, tree


def _match(members, tree, path='t'):
    from pybufrkit.descriptors import (FixedReplicationDescriptor, DelayedReplicationDescriptor, SequenceDescriptor,
                                       ElementDescriptor, OperatorDescriptor)
    if len(members) != len(tree):
        return {'what': 'number of members', 'at': path, 'got': [m.id for m in members], 'exp': [t[1] for t in tree]}
    for i, (m, t) in enumerate(zip(members, tree)):
        if m.id != t[1]:
            return {'what': 'descriptor id', 'at': '%s.%d' % (path, i), 'got': m.id, 'exp': t[1]}
        if t[0] == 'leaf':
            want = {0: ElementDescriptor, 1: ElementDescriptor, 2: OperatorDescriptor, 3: SequenceDescriptor}[t[1] // 100000]
            if type(m) is not want:
                return {'what': 'descriptor type', 'at': '%s.%d' % (path, i), 'got': type(m).__name__}
        else:
            want = DelayedReplicationDescriptor if t[2] is not None else FixedReplicationDescriptor
            if type(m) is not want:
                return {'what': 'replication type', 'at': '%s.%d' % (path, i), 'got': type(m).__name__}
            if t[2] is not None and (m.factor is None or m.factor.id != t[2]):
                return {'what': 'replication does not own the factor that follows it', 'at': '%s.%d' % (path, i),
                        'got': getattr(m.factor, 'id', None), 'exp': t[2]}
            d = _match(m.members, t[3], '%s.%d' % (path, i))
            if d:
                return d
    return None


def _expand(ids, D):
    out = []
    for d in ids:
        if d >= 300000:
            out.extend(_expand(D[d], D))
        else:
            out.append(d)
    return out


def h_grouping(ctx):
    from pybufrkit.descriptors import flat_member_ids
    p = ctx.params
    L = 1 + ctx.choice('length', p.get('max_len', 5))
    flat, tree = _derive(ctx, L, 0, 'd', p.get('max_depth', 3))
    ctx.note('ids', flat)
    tg = pbk.warm_tables()
    try:
        template = tg.template_from_ids(*flat)
    except Exception as e:
        return {'what': 'template_from_ids raised on a well-formed list', 'exc': repr(e)[:200], 'ids': flat}
    d = _match(template.members, tree)
    if d:
        d['ids'] = flat
        return d
    if list(template.original_descriptor_ids) != flat:
        return {'what': 'flattening the tree does not return the original list', 'got': list(template.original_descriptor_ids), 'ids': flat}
    B, D = fm94.load_tables()
    if flat_member_ids(template) != _expand(flat, D):
        return {'what': 'full expansion differs from a direct expansion of Table D', 'got': flat_member_ids(template), 'ids': flat}
    # the string form of ids is accepted alike
    t2 = tg.template_from_ids(*['%06d' % i for i in flat])
    if list(t2.original_descriptor_ids) != flat:
        return {'what': 'ids given as strings build a different template'}
    ctx.witness('grouped-%d' % min(3, sum(1 for t in _walk(tree) if t[0] == 'rep')))
    return None


def _walk(tree):
    for t in tree:
        yield t
        if t[0] == 'rep':
            for s in _walk(t[3]):
                yield s


UNKNOWN_TEMPLATES = [
    # (ids with None at the place of the undefined descriptor, reached?)  reached: 'always' | 'factor' | 'never'
    ([1004, None, 2001], 'always'),
    ([None], 'always'),
    ([301001, None], 'always'),
    ([101000, 31001, None], 'factor'),
    ([102002, 1004, None], 'always'),
    ([1004, 206008, None, 2001], 'never'),
    ([221001, None, 1004], 'always'),
    ([102000, 31001, 206004, None], 'never'),
]


def h_unknown(ctx):
    from pybufrkit.errors import UnknownDescriptor
    t = ctx.choice('template', len(UNKNOWN_TEMPLATES))
    u = [63250, 363250, 1255, 48001][ctx.choice('undefined', 4)]
    ids0, reach = UNKNOWN_TEMPLATES[t]
    ids = [u if i is None else i for i in ids0]
    if u >= 300000 and 206008 in ids and reach == 'never':
        pass   # 206YYY skips whatever descriptor follows
    src = ctx.source('S', 256)
    ctx.note('ids', ids)
    factor = None
    if ids[0] in (101000, 102000):
        factor = src.peek(0, 8)       # the delayed replication factor is the first field of these templates
        ctx.assume(factor <= 2)
    try:
        td, pos, _ = pbk.decode_template_data(ctx, ids, src)
    except UnknownDescriptor:
        if reach == 'never' or (reach == 'factor' and bool(factor == 0)):
            return {'what': 'an undefined descriptor that is never reached (skipped by 206YYY / zero repetitions) made decoding fail', 'ids': ids}
        ctx.witness('refused')
        return None
    except Exception as e:
        return {'what': 'undefined descriptor raises something else than the unknown-descriptor error', 'exc': repr(e)[:200], 'ids': ids}
    if reach == 'always' or (reach == 'factor' and bool(factor > 0)):
        return {'what': 'a descriptor that is in no table was skipped instead of failing', 'ids': ids,
                'labels': pbk.labels(td.decoded_descriptors_all_subsets[0])}
    ctx.witness('not-reached')
    return None


def h_selection(ctx):
    from pybufrkit.tables import TableGroupCacheManager, get_tables_sn, normalize_tables_sn
    from pybufrkit.constants import DEFAULT_TABLES_DIR
    root = DEFAULT_TABLES_DIR
    number = [0, 5][ctx.choice('number', 2)]
    mtv = [13, 33, 41, 99, 5, 0][ctx.choice('mtv', 6)]
    centre = [98, 7, 0][ctx.choice('centre', 3)]
    sub = [0, 1][ctx.choice('sub', 2)]
    ltv = [0, 1, 101, 9][ctx.choice('ltv', 4)]
    normalize = bool(ctx.bool('normalize'))
    # what was selected before must not matter: optionally a group WITH local tables for the same master version first
    prior = ctx.choice('prior', 3)
    args = (root, number, mtv, centre, sub, ltv, normalize, prior)
    if ctx.mode == 'explore':
        from crosshair.tracers import NoTracing
        with NoTracing():      # everything is concrete from here on; table files are loaded natively
            return _selection_body(ctx, *args)
    return _selection_body(ctx, *args)


def _selection_body(ctx, root, number, mtv, centre, sub, ltv, normalize, prior=0):
    from pybufrkit.tables import TableGroupCacheManager
    TableGroupCacheManager.invalidate()
    if prior:
        TableGroupCacheManager.get_table_group(tables_root_dir=root, master_table_number=0, originating_centre=98, originating_subcentre=0,
                                               master_table_version=mtv or 33, local_table_version=[0, 1, 101][prior], normalize=1)

    def isdir(*parts):
        return os.path.isdir(os.path.join(root, *[str(x) for x in parts]))
    if normalize:
        # the documented rules (tables.normalize_tables_sn docstring / docs): unknown master number -> 0, unknown version -> 33,
        # local table: the centre's own sub-centre directory, else the centre's default sub-centre 0, else no local table.
        # (falsy arguments are replaced by the defaults before normalisation)
        n = number if isdir(number) else 0
        v = mtv or 33
        wmo = (str(n), '0_0', str(v)) if isdir(n, '0_0', v) else (str(n), '0_0', '33')
        local = None
        if ltv != 0:
            for cs in ('%d_%d' % (centre, sub), '%d_0' % centre):
                if isdir(n, cs, ltv):
                    local = (str(n), cs, str(ltv))
                    break
    else:
        wmo = (str(number), '0_0', str(mtv))
        local = (str(number), '%d_%d' % (centre, sub), str(ltv)) if ltv != 0 else None
        if not isdir(*wmo) or (local and not isdir(*local)):
            ctx.witness('no-such-tables')
            return None      # without normalisation a missing directory is the caller's error
    try:
        tg = TableGroupCacheManager.get_table_group(tables_root_dir=root, master_table_number=number, originating_centre=centre,
                                                    originating_subcentre=sub, master_table_version=mtv, local_table_version=ltv,
                                                    normalize=1 if normalize else 0)
    except Exception as e:
        return {'what': 'table group selection raised', 'exc': repr(e)[:200], 'args': [number, centre, sub, mtv, ltv, normalize]}
    if tuple(tg.key.wmo_tables_sn) != wmo or (tg.key.local_tables_sn and tuple(tg.key.local_tables_sn)) != local:
        return {'what': 'wrong table group selected', 'got': [tg.key.wmo_tables_sn, tg.key.local_tables_sn], 'exp': [wmo, local],
                'args': [number, centre, sub, mtv, ltv, normalize]}
    # the group really holds those tables: a local element is known exactly when the local table is in use
    B = json.load(open(os.path.join(root, *wmo, 'TableB.json')))
    if local:
        B.update(json.load(open(os.path.join(root, *local, 'TableB.json'))))     # local entries override
    some = sorted(B)[len(B) // 2]
    got = tg.B.lookup(int(some))
    if type(got).__name__ != 'ElementDescriptor' or [got.name, got.unit, got.scale, got.refval, got.nbits] != B[some][:5]:
        return {'what': 'Table B attributes of the selected version are not intact', 'id': some}
    if local:
        LB = json.load(open(os.path.join(root, *local, 'TableB.json')))
        lid = sorted(LB)[0]
        g2 = tg.B.lookup(int(lid))
        if type(g2).__name__ != 'ElementDescriptor' or g2.nbits != LB[lid][4]:
            return {'what': 'local table entry missing from the selected group', 'id': lid}
    # ... and nothing else: exactly the entries of the selected files (an id from another table must stay undefined)
    D = json.load(open(os.path.join(root, *wmo, 'TableD.json')))
    if local:
        D.update(json.load(open(os.path.join(root, *local, 'TableD.json'))))
    for name, table, want in (('B', tg.B, B), ('D', tg.D, D)):
        got_ids = set(int(k) for k in table.descriptors)
        want_ids = set(int(k) for k in want)
        if got_ids != want_ids:
            extra = sorted(got_ids - want_ids)[:5]
            missing = sorted(want_ids - got_ids)[:5]
            return {'what': 'the selected table group does not hold exactly the entries of its table files', 'table': name,
                    'extra': extra, 'missing': missing, 'args': [number, centre, sub, mtv, ltv, normalize], 'prior': prior}
    ctx.witness('selected-local' if local else 'selected')
    return None


# ---------------------------------------------------------------------------------------------------------------
# concrete conformance sweep (no free variable: not a solver verdict; reported as such)

def tabled_sweep(versions=None):
    """Every sequence of the given bundled Table D versions expands like a direct expansion of the file."""
    import sys
    sys.path.insert(0, os.environ.get('VERIF_REPO', '/repo'))
    from pybufrkit.tables import TableGroupCacheManager
    from pybufrkit.descriptors import flat_member_ids
    from pybufrkit.constants import DEFAULT_TABLES_DIR
    root = DEFAULT_TABLES_DIR
    cases, bad, first = 0, 0, []
    dirs = sorted(os.listdir(os.path.join(root, '0', '0_0')), key=int)
    todo = [(v, None) for v in dirs if versions is None or int(v) in versions]
    if versions is None or 'local' in versions:
        for lv in sorted(os.listdir(os.path.join(root, '0', '98_0'))):
            todo.append(('33', ('98', lv)))
    for v, local in todo:
        tg = TableGroupCacheManager.get_table_group(master_table_version=int(v), originating_centre=int(local[0]) if local else 0,
                                                    local_table_version=int(local[1]) if local else 0)
        B = {int(k): x for k, x in json.load(open(os.path.join(root, '0', '0_0', v, 'TableB.json'))).items()}
        D = {int(k): [int(i) for i in x[1]] for k, x in json.load(open(os.path.join(root, '0', '0_0', v, 'TableD.json'))).items()}
        if local:
            ld = os.path.join(root, '0', '%s_0' % local[0], local[1])
            B.update({int(k): x for k, x in json.load(open(os.path.join(ld, 'TableB.json'))).items()})
            D.update({int(k): [int(i) for i in x[1]] for k, x in json.load(open(os.path.join(ld, 'TableD.json'))).items()})

        def expand(ids):
            out = []
            for d in ids:
                if d >= 300000:
                    out.extend(expand(D[d]))
                else:
                    out.append(d)
            return out
        for sid in sorted(D):
            cases += 1
            try:
                exp = expand(D[sid])
                seq = tg.lookup(sid)
                got = flat_member_ids(seq)
                ok = got == exp
                if ok:
                    # Table B attributes intact for every element reached
                    stack = list(seq.members)
                    while stack and ok:
                        m = stack.pop()
                        if hasattr(m, 'members') and m.members:
                            stack.extend(m.members)
                        if getattr(m, 'factor', None) is not None:
                            stack.append(m.factor)
                        if type(m).__name__ == 'ElementDescriptor':
                            ok = [m.name, m.unit, m.scale, m.refval, m.nbits] == B[m.id][:5]
            except KeyError:
                continue     # the table file itself refers to an id it does not define: nothing to compare
            except Exception as e:
                ok = False
            if not ok:
                bad += 1
                if len(first) < 5:
                    first.append('%s/%06d' % (v, sid))
    return {'name': 'tableD_expansion_vs_file', 'cases': cases, 'disagreements': bad, 'first': first,
            'versions': [v + ('+local%s' % l[1] if l else '') for v, l in todo]}
