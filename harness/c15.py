"""
C15 - the path-expression parser accepts exactly the documented grammar.

Real code executed: NodePathParser.parse and all its handlers, NodePath.__str__ /
slice_to_str.  The whole expression is a CrossHair symbolic string (z3 sequence);
the oracle is a recursive-descent recogniser written from the EBNF of
docs/internals.rst.
"""
import string

from pybufrkit.dataquery import NodePathParser
from pybufrkit.errors import PathExprParsingError

# formatting is the subject here (NodePath.__str__): symbolic ints are rendered by CrossHair itself, not as tokens
FORMAT_TOKENS = False

ALPHABET = '@[]:/.>-01A '
WIDE = ALPHABET + 'x_+9\n\xe9'
SPECIAL = '@[]:/.>'


class Reject(Exception):
    pass


class DontCare(Exception):
    """The documentation is silent (ID tokens with characters other than letters and digits, a leading '.')."""


def ref_parse(s):
    """
    <query_expr> = [<subset_spec>] <path_spec>+ ; <subset_spec> = '@' <slice>
    <path_spec> = <separator> <descriptor_id> [<slice>] ; <separator> = '/' | '.' | '>'
    whitespace ignored; the separator of the first path_spec may be omitted (defaults to '>').
    Returns (subset_slice, [(sep, id, slice)]).
    """
    t = [c for c in s if c not in string.whitespace]
    i = 0
    n = len(t)
    if n == 0:
        raise Reject('empty')

    def parse_slice(i):
        # t[i] == '['
        i += 1
        parts = [[]]
        while True:
            if i >= n:
                raise Reject('unterminated slice')
            c = t[i]
            if c == ']':
                i += 1
                break
            if c == ':':
                parts.append([])
            elif c in SPECIAL:
                raise Reject('bad char in slice')
            else:
                parts[-1].append(c)
            i += 1
        if len(parts) > 3:
            raise Reject('too many indices')
        vals = []
        for p in parts:
            tok = ''.join(p)
            if tok == '':
                vals.append(None)
                continue
            body = tok[1:] if tok[0] == '-' else tok
            if body == '' or any(ch not in '0123456789' for ch in body):
                raise Reject('not an integer')
            vals.append(int(tok))
        if len(vals) == 1:
            if vals[0] is None:
                raise Reject('empty slice')
            v = vals[0]
            if v >= 0:
                return v, i
            return slice(v, v + 1 if v != -1 else None, None), i
        return slice(*vals), i

    subset = slice(None, None, None)
    if t[0] == '@':
        if n < 2 or t[1] != '[':
            raise Reject('@ without slice')
        subset, i = parse_slice(1)
    comps = []
    first = True
    while True:
        if i >= n:
            break
        c = t[i]
        if c in '/.>':
            sep = c
            i += 1
            if first and sep == '.':
                raise DontCare('leading attribute separator')
        elif first and i == 0 and c not in SPECIAL:
            sep = '>'
        else:
            raise Reject('separator expected')
        ident = []
        while i < n and t[i] not in SPECIAL:
            ident.append(t[i])
            i += 1
        if not ident:
            raise Reject('empty id')
        ident = ''.join(ident)
        if any(not (ch.isdigit() or ('A' <= ch <= 'Z')) for ch in ident):
            raise DontCare('id with characters other than digits and capital letters')
        slc = slice(None, None, None)
        if i < n and t[i] == '[':
            slc, i = parse_slice(i)
        comps.append((sep, ident, slc))
        first = False
    if not comps:
        raise Reject('no path component')
    return subset, comps


def _real_parse(s):
    p = NodePathParser().parse(s)
    return p.subset_slice, [(c.separator, c.id, c.slice) for c in p.components], p


def h_parse(ctx):
    maxlen = ctx.params.get('maxlen', 4)
    s = ctx.symstr('s', maxlen, ALPHABET)
    first = ctx.params.get('first')
    if first is not None:
        # split of the run by the class of the first character
        if len(s) == 0 or s[0] not in first:
            ctx.assume(False)
    try:
        exp = ref_parse(s)
        exp_err = None
    except Reject as e:
        exp, exp_err = None, e
    except DontCare:
        ctx.witness('dont-care')
        return None
    try:
        got_subset, got_comps, obj = _real_parse(s)
    except PathExprParsingError:
        if exp is not None:
            return {'what': 'a string of the documented grammar is rejected', 's': s}
        ctx.witness('rejected')
        return None
    except Exception as e:
        return {'what': 'rejected with another exception than PathExprParsingError', 's': s, 'exc': repr(e)[:200]}
    if exp is None:
        return {'what': 'a string outside the documented grammar is accepted', 's': s, 'why': str(exp_err),
                'components': repr(got_comps)}
    if got_subset != exp[0] or got_comps != exp[1]:
        return {'what': 'wrong components or slices', 's': s, 'got': repr((got_subset, got_comps)), 'exp': repr(exp)}
    # printing a parsed path and parsing the printout gives the same path
    printed = str(obj)
    try:
        again = _real_parse(printed)
    except Exception as e:
        return {'what': 'printout of a parsed path does not parse', 's': s, 'printed': printed, 'exc': repr(e)[:200]}
    if again[0] != got_subset or again[1] != got_comps:
        return {'what': 'printing and re-parsing changes the path', 's': s, 'printed': printed}
    ctx.witness('accepted')
    return None


def h_anychar(ctx):
    """One unrestricted character (any code point) anywhere: the only exception is PathExprParsingError."""
    from crosshair.core import proxy_for_type
    from crosshair.tracers import NoTracing
    a = ctx.symstr('a', ctx.params.get('prefix', 1), ALPHABET)
    b = ctx.symstr('b', ctx.params.get('suffix', 1), ALPHABET)
    if ctx.mode == 'explore':
        with NoTracing():
            c = proxy_for_type(str, 'v_c')
        ctx.vars.append(('c', 'str', c))
        if len(c) != 1:
            ctx.assume(False)
    else:
        c = ctx.record['inputs']['c']
    s = a + c + b
    try:
        NodePathParser().parse(s)
    except PathExprParsingError:
        ctx.witness('rejected')
        return None
    except Exception as e:
        return {'what': 'rejected with another exception than PathExprParsingError', 's': s, 'exc': repr(e)[:200]}
    ctx.witness('accepted')
    return None


def h_wide(ctx):
    """Wider alphabet (lower case, underscore, plus sign, newline, 8-bit letter): nothing but PathExprParsingError escapes."""
    s = ctx.symstr('s', ctx.params.get('maxlen', 3), WIDE)
    try:
        NodePathParser().parse(s)
    except PathExprParsingError:
        ctx.witness('rejected')
        return None
    except Exception as e:
        return {'what': 'rejected with another exception than PathExprParsingError', 's': s, 'exc': repr(e)[:200]}
    ctx.witness('accepted')
    return None


def _sym_slice(ctx, tag, lo=-2, hi=2):
    """A slice object or an int, every part a solver integer (or absent)."""
    kind = ctx.choice(tag + 'kind', 3)      # 0: int index, 1: start:stop, 2: start:stop:step
    if kind == 0:
        return ctx.concrete(ctx.int(tag + 'i', 0, hi), 0, hi)    # (negative ints are normalised to slices by the parser)
    parts = []
    for k in range(kind + 1):
        parts.append(ctx.concrete(ctx.int('%sp%d' % (tag, k), lo, hi), lo, hi) if ctx.bool('%sh%d' % (tag, k)) else None)
    if len(parts) == 3 and parts[2] is not None and bool(parts[2] == 0):
        ctx.assume(False)                   # a zero step is not a slice
    return slice(*parts)


def h_print_roundtrip(ctx):
    """
    Printing a path and parsing the printout gives the same path - for path objects whose slice numbers are solver
    integers (start / stop / step each present or absent, zero and negative values included), i.e. independent of
    the string-length bound of h_parse.
    """
    from pybufrkit.dataquery import NodePath, PathComponent
    path = NodePath('dummy')
    which = ctx.params.get('which', 'subset')     # the slice whose numbers are solver integers (the other is [::])
    subset = _sym_slice(ctx, 's') if which == 'subset' else slice(None, None, None)
    path.subset_slice = subset
    seps = ['/', '.', '>']
    comps = []
    n = 1 + ctx.choice('ncomp', ctx.params.get('max_components', 2))
    for k in range(n):
        sep = seps[ctx.choice('sep%d' % k, 3)] if k else seps[ctx.choice('sep0', 2) * 2]    # first: '/' or '>'
        slc = _sym_slice(ctx, 'c%d' % k) if (which == 'component' and k == n - 1) else slice(None, None, None)
        path.add_component(PathComponent(sep, ['001001', 'A'][k % 2], slc))
        comps.append((sep, ['001001', 'A'][k % 2], slc))
    try:
        printed = str(path)
    except Exception as e:
        return {'what': 'printing a path raised', 'exc': repr(e)[:200]}
    try:
        got_subset, got_comps, _ = _real_parse(printed)
    except Exception as e:
        return {'what': 'printout of a path does not parse', 'printed': printed, 'exc': repr(e)[:200]}

    def same_slice(a, b):
        if isinstance(a, slice) != isinstance(b, slice):
            return False
        if isinstance(a, slice):
            return all((x is None and y is None) or (x is not None and y is not None and bool(x == y))
                       for x, y in ((a.start, b.start), (a.stop, b.stop), (a.step, b.step)))
        return bool(a == b)
    if not same_slice(got_subset, subset):
        return {'what': 'printing and re-parsing changes the subset slice', 'printed': printed, 'slice': repr(subset), 'got': repr(got_subset)}
    if len(got_comps) != len(comps):
        return {'what': 'printing and re-parsing changes the number of components', 'printed': printed}
    for (s1, i1, c1), (s2, i2, c2) in zip(got_comps, comps):
        if s1 != s2 or i1 != i2 or not same_slice(c1, c2):
            return {'what': 'printing and re-parsing changes a component', 'printed': printed, 'exp': repr((s2, i2, c2)), 'got': repr((s1, i1, c1))}
    ctx.witness('roundtrip')
    return None


VALID_AFTER = ['/001001', '@[0] > A', 'A[1]/0']


def h_reuse(ctx):
    """
    A parser object that has just processed ANY string (accepted or rejected, symbolic) parses the next, valid, string
    exactly like a fresh parser: nothing of an earlier expression survives in the parser.
    """
    first = ctx.symstr('first', ctx.params.get('maxlen', 4), '@[]:/A1 ')
    second = VALID_AFTER[ctx.choice('second', len(VALID_AFTER))]
    parser = NodePathParser()
    try:
        parser.parse(first)
        ctx.witness('first-accepted')
    except PathExprParsingError:
        ctx.witness('first-rejected')
    except Exception as e:
        return None     # h_parse's subject
    fresh = NodePathParser().parse(second)
    try:
        p = parser.parse(second)
    except Exception as e:
        return {'what': 'a valid expression is rejected by a parser that was used before', 'first': first, 'second': second, 'exc': repr(e)[:200]}
    a = (p.subset_slice, [(c.separator, c.id, c.slice) for c in p.components])
    b = (fresh.subset_slice, [(c.separator, c.id, c.slice) for c in fresh.components])
    if a != b:
        return {'what': 'the result of parsing depends on what the parser object processed before', 'first': first, 'second': second,
                'got': repr(a), 'fresh': repr(b)}
    return None


SKELETONS = ['@[0]/A', 'A[1:2]/B', '@[:1]>A.B[0]', '/A[-1]', '@[1]A']


def h_insert(ctx):
    """
    A well-formed expression with a solver-chosen string of <= k characters inserted at a solver-chosen position
    (covers the single- and double-character mutations of longer expressions that the length-bounded runs do not reach).
    """
    p = ctx.params
    sk = SKELETONS[p['skeleton']] if 'skeleton' in p else SKELETONS[ctx.choice('skeleton', len(SKELETONS))]
    pos = ctx.choice('pos', len(sk) + 1)
    ins = ctx.symstr('ins', p.get('maxlen', 1), p.get('alphabet', ALPHABET))
    s = sk[:pos] + ins + sk[pos:]
    try:
        exp = ref_parse(s)
        exp_err = None
    except Reject as e:
        exp, exp_err = None, e
    except DontCare:
        ctx.witness('dont-care')
        return None
    try:
        got_subset, got_comps, obj = _real_parse(s)
    except PathExprParsingError:
        if exp is not None:
            return {'what': 'a string of the documented grammar is rejected', 's': s}
        ctx.witness('rejected')
        return None
    except Exception as e:
        return {'what': 'rejected with another exception than PathExprParsingError', 's': s, 'exc': repr(e)[:200]}
    if exp is None:
        return {'what': 'a string outside the documented grammar is accepted', 's': s, 'why': str(exp_err), 'components': repr(got_comps),
                'subset': repr(got_subset)}
    if got_subset != exp[0] or got_comps != exp[1]:
        return {'what': 'wrong components or slices', 's': s, 'got': repr((got_subset, got_comps)), 'exp': repr(exp)}
    ctx.witness('accepted')
    return None
