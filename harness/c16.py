"""
C16 - data queries return exactly the values the path designates.

Real code executed: Decoder.process_template_data (interpreted or compiled, compressed or not) over a symbolic stream,
TemplateData.wire, NestedJsonRenderer._render_template_data, NodePathParser.parse, DataQuerent.query and every filter_*
method, create_values_from_nodes, QueryResult.

The message *shape* (replication factors incl. zero, bitmap bits, bitmap lengths, attribute counts) is made of solver
variables explored path by path; the values are opaque solver terms.  On every shape the oracle is an independent
evaluator of the path over the NESTED JSON rendering of the message (one envelope per replication, one list per
repetition, matches in document order, an empty selection contributes nothing).

h_paths    every child/attribute path that exists in the shape (to a depth bound, enumerated from the rendering) and a few
           that do not, with every slice of a menu at every step, put through the real parser and querent; bare-ID queries
           of ordinary elements against the flat data; '@' selectors from a menu.
h_symslice one path of the shape (solver-chosen among those that exist), one step of which (solver-chosen) carries a slice
           whose start / stop / step - or an integer index - are solver integers; the '@' selector likewise (stub parser).
"""
from vlib import pbk, fm94, families, symcore as sc
from crosshair.tracers import NoTracing


def prepare(params):
    fm94.load_tables()
    pbk.warm_tables()
    pbk.decoder()
    pbk.decoder(10)


class QErr(Exception):
    """the oracle's QueryError"""


# ------------------------------------------------------------------------------------------------------------
# the oracle: evaluation of a path over the nested JSON rendering

def is_rep(n):
    return n['id'][0] == '1' and 'members' in n and 'value' not in n


def select(cands, cid, slc):
    matched = [c for c in cands if c['id'] == cid]
    if isinstance(slc, int):
        return [matched[slc]] if 0 <= slc < len(matched) else []
    idx = sorted(range(len(matched))[slc])
    return [matched[i] for i in idx]


def ev_step(node, comps):
    sep, cid, slc = comps[0]
    if sep == '/':
        if 'members' not in node:
            raise QErr('no child nodes')
        if is_rep(node):
            envelope = []
            for rep in node['members']:
                vals = ev_proceed(select(rep, cid, slc), comps)
                if vals:
                    envelope.append(vals)
            return [envelope] if envelope else []
        return ev_proceed(select(node['members'], cid, slc), comps)
    if sep == '.':
        if 'attributes' not in node and 'factor' not in node:
            raise QErr('no attribute nodes')
        sel = []
        if 'factor' in node:
            sel += select([node['factor']], cid, slc)
        sel += select(node.get('attributes', []), cid, slc)
        return ev_proceed(sel, comps)
    raise QErr('oracle: descendant steps are evaluated by ev_descend')


def ev_proceed(nodes, comps):
    if len(comps) > 1:
        out = []
        for n in nodes:
            out += ev_step(n, comps[1:])
        return out
    out = []
    for n in nodes:
        if 'value' not in n:
            if LENIENT[0] and n['id'][0] == '0' and 'members' not in n:
                continue      # an element whose data is not present (221YYY): designates no value
            raise QErr('valueless node')
        out.append(n)
    return out


# An explicit path that ends on a data-not-present element may be refused or may skip the element (the statement speaks of
# values only); both readings are accepted.  The bare-ID statement is explicit: the values present must be returned.
LENIENT = [False]


def leaves(x):
    out = []
    for e in x:
        if isinstance(e, list):
            out.extend(leaves(e))
        else:
            out.append(e)
    return out


def same_nested(got, exp):
    """got: nested lists of values; exp: nested lists of rendered value nodes"""
    if isinstance(exp, list) != isinstance(got, list):
        return False
    if isinstance(exp, list):
        if len(got) != len(exp):
            return False
        for g, e in zip(got, exp):
            if not same_nested(g, e):
                return False
        return True
    v = exp['value']
    return g_is(got, v)


def g_is(a, b):
    # the querent hands the decoded objects through: identity in the symbolic run, equality on replay
    if a is b:
        return True
    with NoTracing():
        if isinstance(a, sc.Quot) and isinstance(b, sc.Quot) and a.den == b.den:
            a, b = a.num, b.num
        if sc.is_sym(a) or sc.is_sym(b):
            if isinstance(a, (sc.Quot, sc.SymSeq)) or isinstance(b, (sc.Quot, sc.SymSeq)) or a is None or b is None:
                return False
            # two different solver terms: is there a data content for which they differ?  (then that content is the counterexample)
            return not sc.fork(sc.unwrap(a) != sc.unwrap(b))
        if isinstance(a, (sc.Quot, sc.SymSeq)) or isinstance(b, (sc.Quot, sc.SymSeq)):
            return False
    return fm94.same(a, b)


# ------------------------------------------------------------------------------------------------------------
# path enumeration from the rendering (the "program" menu of this shape)

def enum_paths(root_members, max_depth):
    """all (sep, id) sequences that exist in the rendering, to max_depth, in first-seen order"""
    seen, out = set(), []

    def visit(node, prefix):
        if len(prefix) >= max_depth:
            return
        kids = []
        if 'members' in node:
            if is_rep(node):
                for rep in node['members']:
                    kids += [('/', m) for m in rep]
            else:
                kids += [('/', m) for m in node['members']]
        if 'factor' in node:
            kids.append(('.', node['factor']))
        for a in node.get('attributes', []):
            kids.append(('.', a))
        for sep, k in kids:
            p = prefix + ((sep, k['id']),)
            if p not in seen:
                seen.add(p)
                out.append(p)
            visit(k, p)

    visit({'id': 'TEMPLATE', 'members': root_members}, ())
    return out


SLICE_MENU = [slice(None, None, None), 0, 1, 2, slice(-1, None, None), slice(-2, -1, None), slice(None, None, 2), slice(1, None, None),
              slice(None, None, -1), slice(None, 1, None)]


def slice_text(s):
    if isinstance(s, int):
        return '[%d]' % s
    if s == slice(None, None, None):
        return ''
    f = lambda v: '' if v is None else str(v)   # noqa: E731
    if s.step is None:
        return '[%s:%s]' % (f(s.start), f(s.stop))
    return '[%s:%s:%s]' % (f(s.start), f(s.stop), f(s.step))


def expr_text(subset, comps):
    t = '' if subset is None else '@' + (slice_text(subset) or '[:]')
    return t + ''.join('%s%s%s' % (sep, cid, slice_text(slc)) for sep, cid, slc in comps)


# ------------------------------------------------------------------------------------------------------------

def _decode(ctx):
    from pybufrkit.renderer import NestedJsonRenderer
    p = ctx.params
    fam = families.by_name(p['family'])
    ids = fam['ids']
    n_subsets = p.get('n_subsets', 1)
    compressed = bool(p.get('compressed'))
    src = ctx.source('S', p.get('nbits', 2048))
    try:
        ref = fm94.reference_decode(ctx, ids, src, n_subsets=n_subsets, compressed=compressed,
                                    max_factor=p.get('max_factor', fam.get('max_factor', 2)),
                                    max_diff_width=p.get('max_diff_width', 1), no_missing=True)
    except fm94.RefMalformed:
        ctx.witness('malformed')
        return None
    td, pos, m = pbk.decode_template_data(ctx, ids, src, n_subsets=n_subsets, compressed=compressed, compiled=p.get('compiled'))
    td.wire()
    m.template_data = pbk.param('template_data', td, 0, 'template_data')
    nested = NestedJsonRenderer()._render_template_data(td)
    return td, m, nested, ref


def _run_query(q, m, expr):
    from pybufrkit.errors import QueryError
    try:
        return 'ok', q.query(m, expr)
    except QueryError:
        return 'qerr', None


def _check(ctx, q, m, nested, n_subsets, subset, comps, expr):
    """one query against the oracle; returns a violation dict or None"""
    idx = list(range(n_subsets))
    if subset is not None:
        idx = [subset] if isinstance(subset, int) else idx[subset]
    try:
        kind, qr = _run_query(q, m, expr)
    except Exception as e:
        return {'what': 'query raised something that is not QueryError', 'expr': expr_text(subset, comps), 'exc': repr(e)[:200]}
    d = None
    for lenient in (False, True):
        d = _compare(kind, qr, nested, idx, comps, subset, lenient)
        if d is None:
            return None
    return d


def _compare(kind, qr, nested, idx, comps, subset, lenient):
    exp, exp_err = {}, False
    LENIENT[0] = lenient
    try:
        for i in idx:
            try:
                exp[i] = ev_step({'id': 'TEMPLATE', 'members': nested[i]}, comps)
            except QErr:
                exp_err = True
                break
    finally:
        LENIENT[0] = False
    if exp_err:
        if kind != 'qerr':
            return {'what': 'a step into a node that has no such sub-nodes (or a valueless result) must be refused with QueryError',
                    'expr': expr_text(subset, comps)}
        return None
    if kind == 'qerr':
        return {'what': 'QueryError on a path the rendering can answer', 'expr': expr_text(subset, comps)}
    if qr.subset_indices() != idx:
        return {'what': 'result does not cover exactly the selected subsets', 'expr': expr_text(subset, comps),
                'got': qr.subset_indices(), 'exp': idx}
    for i in idx:
        if not same_nested(qr.get_values(i), exp[i]):
            return {'what': 'query result differs from the evaluation of the path over the nested rendering',
                    'expr': expr_text(subset, comps), 'subset': i, 'got': qr.get_values(i),
                    'exp': _values_of(exp[i])}
    return None


def _values_of(x):
    return [_values_of(e) if isinstance(e, list) else e['value'] for e in x]


def h_paths(ctx):
    from pybufrkit.dataquery import DataQuerent, NodePathParser
    p = ctx.params
    r = _decode(ctx)
    if r is None:
        return None
    td, m, nested, ref = r
    n_subsets = p.get('n_subsets', 1)
    q = DataQuerent(NodePathParser())
    depth = p.get('depth', 3)
    menu = SLICE_MENU[:p.get('menu', len(SLICE_MENU))]
    n_queries = 0
    import contextlib
    # the structure is concrete on this path and the values are only moved around: the querent runs natively - unless the job
    # asks for a traced run (slower, smaller menu), which also follows code that branches on the VALUES
    with (contextlib.nullcontext() if p.get('traced') else NoTracing()):
        skeletons = []
        for i in range(n_subsets):
            for sk in enum_paths(nested[i], depth):
                if sk not in skeletons:
                    skeletons.append(sk)
        # steps that do not exist
        extra = [(('/', '001004'), ('/', '001004')), (('/', '099099'),), (('/', '001004'), ('.', '033007'))]
        for sk in skeletons[:3]:
            extra.append(sk + (('/', '012001'),))
            extra.append(sk + (('.', '008023'),))
        for sk in skeletons + extra:
            variants = [tuple((sep, cid, slice(None, None, None)) for sep, cid in sk)]
            for k in range(len(sk)):
                for s in menu[1:]:
                    variants.append(tuple((sep, cid, s if j == k else slice(None, None, None)) for j, (sep, cid) in enumerate(sk)))
            if len(sk) >= 2 and not p.get('traced'):
                pair_menu = [0, slice(-1, None, None), slice(None, None, 2), slice(1, None, None)]
                for a in pair_menu:
                    for b in pair_menu:
                        variants.append(tuple((sep, cid, a if j == len(sk) - 2 else (b if j == len(sk) - 1 else slice(None, None, None)))
                                              for j, (sep, cid) in enumerate(sk)))
            for comps in variants:
                d = _check(ctx, q, m, nested, n_subsets, None, comps, expr_text(None, comps))
                n_queries += 1
                if d:
                    return d
        # subset selectors
        if skeletons:
            comps = tuple((sep, cid, slice(None, None, None)) for sep, cid in skeletons[min(1, len(skeletons) - 1)])
            for sub in [slice(None, None, None), 0, n_subsets - 1, slice(-1, None, None), slice(None, None, 2), slice(1, None, None),
                        slice(None, None, -1), slice(5, None, None)]:
                d = _check(ctx, q, m, nested, n_subsets, sub, comps, expr_text(sub, comps))
                n_queries += 1
                if d:
                    return d
        # bare IDs of ordinary elements: every value carrying the ID in the flat data, per subset and in order
        for i in range(n_subsets):
            labels = pbk.labels(td.decoded_descriptors_all_subsets[0 if td.is_compressed else i])
            values = td.decoded_values_all_subsets[i]
            attr_ids = set()
            _attribute_ids(nested[i], attr_ids)
            for lab in sorted(set(labels)):
                if lab in attr_ids:
                    continue        # also attached to other nodes as an attribute: outside the statement
                want = [v for l, v in zip(labels, values) if l == lab]
                for expr in (lab, '> ' + lab, '@[%d] > %s' % (i, lab)):
                    try:
                        kind, qr = _run_query(q, m, expr)
                    except Exception as e:
                        return {'what': 'bare-ID query raised', 'expr': expr, 'exc': repr(e)[:200]}
                    n_queries += 1
                    if kind != 'ok' or qr.subset_indices() != ([i] if expr[0] == '@' else list(range(n_subsets))):
                        return {'what': 'bare-ID query refused or over the wrong subsets', 'expr': expr}
                    got = leaves(qr.get_values(i))
                    if len(got) != len(want) or not all(g_is(a, b) for a, b in zip(got, want)):
                        return {'what': 'bare ID of an ordinary element does not return every value carrying that ID in flat order',
                                'id': lab, 'subset': i, 'got': got, 'exp': want}
                    if expr[0] == '@' and not all(g_is(a, b) for a, b in zip(leaves(qr.all_values(flat=True)), want)):
                        return {'what': 'flat form of the result', 'id': lab}
    ctx.witness('queried' if n_queries > 50 else 'queried-few')
    if any(len(o.links) for o in ref.outs):
        ctx.witness('with-attributes')
    return None


def _attribute_ids(nodes, acc):
    for n in nodes:
        for a in n.get('attributes', []):
            acc.add(a['id'])
            _attribute_ids([a], acc)
        if 'factor' in n:
            acc.add(n['factor']['id'])      # a replication factor hangs on its replication like an attribute
            _attribute_ids([n['factor']], acc)
        if 'members' in n:
            if is_rep(n):
                for rep in n['members']:
                    _attribute_ids(rep, acc)
            else:
                _attribute_ids(n['members'], acc)


class _StubParser(object):
    def __init__(self, node_path):
        self.node_path = node_path

    def parse(self, expr):
        return self.node_path


def _sym_slice(ctx, tag, lo, hi, kind):
    """an int index or a slice whose parts are absent or solver integers"""
    if kind == 'int':
        return ctx.int(tag + '_i', 0, hi)
    parts = []
    for nm in ('start', 'stop', 'step'):
        if ctx.choice('%s_%s_given' % (tag, nm), 2):
            v = ctx.int('%s_%s' % (tag, nm), lo, hi)
            if nm == 'step':
                ctx.assume(v != 0)
            parts.append(v)
        else:
            parts.append(None)
    return slice(*parts)


def _concrete_slice(ctx, s, lo, hi):
    if isinstance(s, slice):
        return slice(*[None if v is None else ctx.concrete(v, lo, hi) for v in (s.start, s.stop, s.step)])
    return ctx.concrete(s, lo, hi)


def h_symslice(ctx):
    from pybufrkit.dataquery import DataQuerent, NodePath, PathComponent
    p = ctx.params
    r = _decode(ctx)
    if r is None:
        return None
    td, m, nested, ref = r
    n_subsets = p.get('n_subsets', 1)
    lo, hi = p.get('lo', -2), p.get('hi', 2)
    with NoTracing():
        skeletons = enum_paths(nested[0], p.get('depth', 3))
        want_sep = p.get('last_sep')
        if want_sep:
            skeletons = [sk for sk in skeletons if sk[-1][0] == want_sep]
        skeletons = [sk for sk in skeletons if len(sk) >= p.get('min_depth', 1)]
    if not skeletons:
        ctx.witness('no-path')
        return None
    sk = skeletons[ctx.choice('skeleton', min(len(skeletons), p.get('max_skeletons', 6)))]
    k = ctx.choice('step', len(sk))
    sym = _sym_slice(ctx, 'c', lo, hi, p.get('kind', 'slice'))
    subset = None
    if p.get('sym_subset'):
        subset = _sym_slice(ctx, 'u', lo, hi, p.get('subset_kind', 'slice'))
        if isinstance(subset, int) or p.get('subset_kind') == 'int':
            ctx.assume(subset < n_subsets)
    comps = [PathComponent(sep, cid, sym if j == k else slice(None, None, None)) for j, (sep, cid) in enumerate(sk)]
    node_path = NodePath('<stub>')
    node_path.subset_slice = subset if subset is not None else slice(None, None, None)
    node_path.components = comps
    q = DataQuerent(_StubParser(node_path))
    from pybufrkit.errors import QueryError
    try:
        qr = q.query(m, '<stub>')
        kind = 'ok'
    except QueryError:
        kind, qr = 'qerr', None
    except Exception as e:
        return {'what': 'query raised something that is not QueryError', 'exc': repr(e)[:200], 'path': [list(c[:2]) for c in sk]}
    # the oracle works on the concrete value of the slice on this path (forks on whatever the querent left undecided)
    csym = _concrete_slice(ctx, sym, lo, hi)
    csub = None if subset is None else _concrete_slice(ctx, subset, lo, hi)
    ccomps = tuple((sep, cid, csym if j == k else slice(None, None, None)) for j, (sep, cid) in enumerate(sk))
    idx = list(range(n_subsets))
    if csub is not None:
        idx = [csub] if isinstance(csub, int) else idx[csub]
    d = None
    for lenient in (False, True):
        d = _compare(kind, qr, nested, idx, ccomps, csub, lenient)
        if d is None:
            break
    if d:
        return d
    if kind == 'qerr':
        ctx.witness('refused')
        return None
    LENIENT[0] = True
    try:
        exp = {i: ev_step({'id': 'TEMPLATE', 'members': nested[i]}, ccomps) for i in idx}
    finally:
        LENIENT[0] = False
    ctx.witness('answered' if any(leaves(_values_of(exp[i])) for i in idx) else 'answered-empty')
    return None
