"""
C17 - metadata queries and metadata-only decoding agree with the full decode.

h_expr     MetadataExprParser.parse on a symbolic string (z3 sequence) against a recogniser written from the property
           statement: '%name' / '%k.name' accepted with exactly (k, name); anything that does not start with '%' or has a
           non-numeric section index is rejected with MetadataExprParsingError.
h_query    a whole message assembled here from the FM-94 octet tables of editions 2, 3, 4 (names of the parameters as
           documented, nothing read from pybufrkit/definitions) whose header fields are solver integers; decoded by the
           real Decoder.process (info-only or full), then every '%name' and '%k.name' is put to the real MetadataQuerent
           through the real parser, and '%k.name' additionally with k a solver integer (stub parser).
h_info     the same stream decoded fully and metadata-only: sections 0-3 carry the same values; the metadata-only decode
           succeeds and returns the same values whatever the data section holds (solver bits; a data section shorter than
           its template needs; an undefined element descriptor), and generate_bufr_message(info_only=True) cuts each message
           at its declared total length (a solver-chosen deviation from the real length).
"""
from vlib import pbk, streams, symcore as sc

U, B, BIN, BYTES = 'uint', 'bool', 'bin', 'bytes'

S0 = [('start_signature', 32, BYTES), ('length', 24, U), ('edition', 8, U)]
_DATE = [('month', 8, U), ('day', 8, U), ('hour', 8, U), ('minute', 8, U), ('second', 8, U)]
S1 = {
    2: [('section_length', 24, U), ('master_table_number', 8, U), ('originating_centre', 16, U),
        ('update_sequence_number', 8, U), ('is_section2_presents', 1, B), ('flag_bits', 7, BIN), ('data_category', 8, U),
        ('data_local_subcategory', 8, U), ('master_table_version', 8, U), ('local_table_version', 8, U), ('year', 8, U)] + _DATE,
    3: [('section_length', 24, U), ('master_table_number', 8, U), ('originating_subcentre', 8, U), ('originating_centre', 8, U),
        ('update_sequence_number', 8, U), ('is_section2_presents', 1, B), ('flag_bits', 7, BIN), ('data_category', 8, U),
        ('data_local_subcategory', 8, U), ('master_table_version', 8, U), ('local_table_version', 8, U), ('year', 8, U)] + _DATE,
    4: [('section_length', 24, U), ('master_table_number', 8, U), ('originating_centre', 16, U), ('originating_subcentre', 16, U),
        ('update_sequence_number', 8, U), ('is_section2_presents', 1, B), ('flag_bits', 7, BIN), ('data_category', 8, U),
        ('data_i18n_subcategory', 8, U), ('data_local_subcategory', 8, U), ('master_table_version', 8, U),
        ('local_table_version', 8, U), ('year', 16, U)] + _DATE,
}
S2 = [('section_length', 24, U), ('reserved_bits', 8, BIN), ('local_bits', 0, BIN)]
S3 = [('section_length', 24, U), ('reserved_bits', 8, BIN), ('n_subsets', 16, U), ('is_observation', 1, B),
      ('is_compressed', 1, B), ('flag_bits', 6, BIN), ('unexpanded_descriptors', 0, 'ids')]
S4 = [('section_length', 24, U), ('reserved_bits', 8, BIN), ('template_data', 0, 'data')]
S5 = [('stop_signature', 32, BYTES)]

ABSENT_NAMES = ['nonexistent', 'Length', 'section4']


def prepare(params):
    pbk.warm_tables()
    pbk.decoder()


def _even(octets, edition):
    return octets + 1 if (edition <= 3 and octets % 2) else octets


def _bin(v, n):
    return ''.join('1' if (v >> (n - 1 - k)) & 1 else '0' for k in range(n))


class Built(object):
    pass


def build_message(ctx, edition, sec2, ids, data_parts, n_data_bits, tag='', fixed=None, total_delta=0, data_octets=None):
    """
    Assemble one message from the layout tables.  Every uint field that does not steer the structure is a fresh solver
    integer (unless given in `fixed`).  Returns Built: parts, nbytes, values {section index: {name: expected value}}.
    """
    fixed = dict(fixed or {})
    vals = {}
    parts = []

    def field(sec, name, nbits, typ, value):
        vals.setdefault(sec, {})[name] = value
        return value

    def free(sec, name, nbits):
        if name in fixed:
            return fixed[name]
        return ctx.int('%ss%d_%s' % (tag, sec, name), 0, (1 << nbits) - 1)

    # extents
    surplus1 = 2 * ctx.choice(tag + 'surplus1', 2) if not fixed.get('no_surplus') else 0
    ext = {1: sum(n for _, n, _ in S1[edition]) // 8 + surplus1}
    if sec2 is not None:
        ext[2] = _even(4 + len(sec2), edition)
    ext[3] = _even(7 + 2 * len(ids), edition)
    if data_octets is None:
        ext[4] = _even(4 + (n_data_bits + 7) // 8, edition)
    else:
        ext[4] = 4 + data_octets
    total = 8 + sum(ext.values()) + 4

    # section 0
    parts.append(b'BUFR')
    field(0, 'start_signature', 32, BYTES, b'BUFR')
    parts.append(('val', total + total_delta, 24))
    field(0, 'length', 24, U, total + total_delta)
    parts.append(bytes([edition]))
    field(0, 'edition', 8, U, edition)
    # section 1
    for name, nbits, typ in S1[edition]:
        if name == 'section_length':
            v = ext[1]
        elif name == 'is_section2_presents':
            v = sec2 is not None
        elif name == 'flag_bits':
            v = fixed.get('s1_flag_bits', 0)
        else:
            v = free(1, name, nbits)
        if typ == B:
            parts.append(('val', 1 if v else 0, 1))
            field(1, name, nbits, typ, bool(v))
        elif typ == BIN:
            parts.append(('val', v, nbits))
            field(1, name, nbits, typ, _bin(v, nbits))
        else:
            parts.append(('val', sc.unwrap(v), nbits))
            field(1, name, nbits, typ, v)
    if surplus1:
        parts.append(b'\xaa' * surplus1)
    # section 2
    if sec2 is not None:
        parts += [('val', ext[2], 24), b'\x05', bytes(sec2)]
        fill = ext[2] - 4 - len(sec2)
        if fill:
            parts.append(b'\0' * fill)
        field(2, 'section_length', 24, U, ext[2])
        field(2, 'reserved_bits', 8, BIN, _bin(5, 8))
        field(2, 'local_bits', 0, BIN, ''.join(_bin(b, 8) for b in bytes(sec2) + b'\0' * fill))
    # section 3
    n_subsets = fixed.get('n_subsets', 1)
    observed = free(3, 'is_observation', 1)
    compressed = fixed.get('is_compressed', False)
    parts += [('val', ext[3], 24), b'\x03', ('val', n_subsets, 16), ('val', sc.unwrap(observed), 1),
              ('val', 1 if compressed else 0, 1), ('val', 0x2a, 6)]
    field(3, 'section_length', 24, U, ext[3])
    field(3, 'reserved_bits', 8, BIN, _bin(3, 8))
    field(3, 'n_subsets', 16, U, n_subsets)
    field(3, 'is_observation', 1, B, observed == 1)
    field(3, 'is_compressed', 1, B, bool(compressed))
    field(3, 'flag_bits', 6, BIN, _bin(0x2a, 6))
    field(3, 'unexpanded_descriptors', 0, 'ids', list(ids))
    for d in ids:
        f, x, y = d // 100000, (d // 1000) % 100, d % 1000
        parts.append(bytes([(f << 6) | x, y]))
    fill = ext[3] - 7 - 2 * len(ids)
    if fill:
        parts.append(b'\0' * fill)
    # section 4
    parts += [('val', ext[4], 24), b'\x09']
    field(4, 'section_length', 24, U, ext[4])
    field(4, 'reserved_bits', 8, BIN, _bin(9, 8))
    if data_octets is None:
        parts += list(data_parts)
        pad = (ext[4] - 4) * 8 - n_data_bits
        if pad:
            parts.append(('val', 0, pad))
    else:
        parts.append(b'\x00' * data_octets)
    parts.append(b'7777')
    field(5, 'stop_signature', 32, BYTES, b'7777')
    b = Built()
    b.parts, b.nbytes, b.vals, b.ext, b.edition = parts, total, vals, ext, edition
    b.names = {0: S0, 1: S1[edition], 3: S3, 4: S4, 5: S5}
    if sec2 is not None:
        b.names[2] = S2
    return b


def _same(got, exp):
    if exp is None or got is None:
        return got is None and exp is None
    if isinstance(exp, bool):
        return bool(got == exp)
    return bool(got == exp)


def _expected(b, k, name, info_only):
    """first-match rule over the sections in order / the value of section k"""
    secs = sorted(b.names)
    for s in secs:
        if k is not None and s != k:
            continue
        if info_only and s == 5:
            continue
        for nm, _, typ in b.names[s]:
            if info_only and typ == 'data':
                continue
            if nm == name:
                return True, b.vals[s].get(name)
    return False, None


def h_query(ctx):
    from pybufrkit.mdquery import MetadataExprParser, MetadataQuerent
    p = ctx.params
    edition = p['edition']
    info_only = not p.get('full')
    sec2 = [None, b'\x01\x02\x03'][ctx.choice('sec2', 2)]
    ids = [1004]
    data = ctx.source('D', 8)
    fixed = {}
    if not info_only:
        fixed.update(master_table_version=33, master_table_number=0, local_table_version=0, originating_centre=0,
                     originating_subcentre=0)
    b = build_message(ctx, edition, sec2, ids, [('src', data, 3)], 3, fixed=fixed)
    stream = streams.flatten_parts(ctx, b.parts)
    try:
        bm = pbk.decoder().process(stream, info_only=info_only)
    except Exception as e:
        return {'what': 'decoding a valid message raised', 'exc': repr(e)[:300], 'info_only': info_only}
    q = MetadataQuerent(MetadataExprParser())
    names = []
    for s in (0, 1, 2, 3, 4, 5):
        table = {0: S0, 1: S1[edition], 2: S2, 3: S3, 4: S4, 5: S5}[s]
        for nm, _, typ in table:
            if nm not in names:
                names.append(nm)
    # names of other editions and names that exist nowhere
    for ed in (2, 3, 4):
        for nm, _, _ in S1[ed]:
            if nm not in names:
                names.append(nm)
    names += ABSENT_NAMES
    for name in names:
        if name == 'template_data':
            found, exp = _expected(b, None, name, info_only)
            got = q.query(bm, '%' + name)
            if found != (got is not None):
                return {'what': 'template_data presence', 'info_only': info_only}
            continue
        found, exp = _expected(b, None, name, info_only)
        try:
            got = q.query(bm, '%' + name)
        except Exception as e:
            return {'what': 'query raised', 'expr': '%' + name, 'exc': repr(e)[:200]}
        if not _same(got, exp):
            return {'what': "'%name' does not return the value of the first section that has the parameter", 'name': name,
                    'got': got, 'exp': exp, 'info_only': info_only}
        for k in (0, 1, 2, 3, 4, 5, 6, 11):
            found, exp = _expected(b, k, name, info_only)
            expr = '%%%d.%s' % (k, name)
            try:
                got = q.query(bm, expr)
            except Exception as e:
                return {'what': 'query raised', 'expr': expr, 'exc': repr(e)[:200]}
            if not _same(got, exp):
                return {'what': "'%k.name' does not return the value held by section k", 'expr': expr, 'got': got, 'exp': exp,
                        'info_only': info_only}
    # section index as a solver integer (the parser is replaced by a stub returning (k, name))
    k = ctx.int('k', -2, 7)

    class Stub(object):
        def parse(self, expr):
            return k, expr

    qs = MetadataQuerent(Stub())
    for name in p.get('symbolic_index_names', ['section_length', 'reserved_bits', 'data_category', 'length']):
        got = qs.query(bm, name)
        kk = ctx.concrete(k, -2, 7)
        found, exp = _expected(b, kk, name, info_only)
        if not _same(got, exp):
            return {'what': "'%k.name' does not return the value held by section k", 'k': kk, 'name': name, 'got': got, 'exp': exp}
    ctx.witness('queried-sec2' if sec2 is not None else 'queried')
    return None


def _section_params(bm, upto=3):
    out = []
    for s in bm.sections:
        idx = s.get_metadata('index')
        if idx > upto:
            continue
        for prm in s:
            out.append((idx, prm.name, prm.value))
    return out


def h_info(ctx):
    """full decode vs metadata-only decode vs metadata-only scanning of a stream"""
    from pybufrkit.decoder import generate_bufr_message
    from pybufrkit.errors import PyBufrKitError
    p = ctx.params
    edition = p['edition']
    mode = p.get('mode', 'valid')       # valid | short | baddesc | scan
    sec2 = [None, b'\x07'][ctx.choice('sec2', 2)]
    ids = p.get('ids', [1004, 2001])
    nbits = p.get('nbits', 5)
    data = ctx.source('D', max(8, nbits))
    fixed = dict(master_table_version=33, master_table_number=0, local_table_version=0, originating_centre=0,
                 originating_subcentre=0)
    kw = {}
    if mode == 'short':
        kw['data_octets'] = 0          # the data section is shorter than the template needs
    if mode == 'baddesc':
        ids = [1004, 63250]            # an element no table defines: the data cannot be decoded at all
    total_delta = 0
    if mode == 'scan':
        total_delta = [0, -3, 2, 5][ctx.choice('total_delta', 4)]
    b = build_message(ctx, edition, sec2, ids, [('src', data, nbits)], nbits, fixed=fixed, total_delta=total_delta, **kw)
    if mode == 'scan':
        b2 = build_message(ctx, 4, None, [1004], [('val', 5, 3)], 3, tag='m2', fixed=dict(fixed, no_surplus=True))
        ntrail = ctx.choice('ntrail', 3)
        parts = list(b.parts)
        gap = [('val', 0, 8)] * max(0, total_delta)     # room so that the declared length stays inside the stream
        parts += gap + list(b2.parts) + ([b'\x00' * ntrail] if ntrail else [])
        stream = streams.flatten_parts(ctx, parts)
        got = []
        try:
            for bm in generate_bufr_message(pbk.decoder(), stream, info_only=True):
                got.append(bm)
                if len(got) > 3:
                    break
        except Exception as e:
            return {'what': 'metadata-only scanning raised', 'exc': repr(e)[:300]}
        declared = b.nbytes + total_delta
        if not got or len(got[0].serialized_bytes) != declared or not (got[0].serialized_bytes == stream[0:declared]):
            return {'what': 'metadata-only scanning does not take the message bytes from the declared total length',
                    'declared': declared, 'got': len(got[0].serialized_bytes) if got else None}
        # what follows the declared end is scanned for the next message
        off2 = b.nbytes + len(gap)
        if total_delta >= 0:
            if len(got) != 2 or not (got[1].serialized_bytes == stream[off2:off2 + b2.nbytes]):
                return {'what': 'the message after the declared end is not delivered', 'n': len(got)}
        ctx.witness('scan%+d' % total_delta)
        return None
    stream = streams.flatten_parts(ctx, b.parts)
    try:
        info = pbk.decoder().process(stream, info_only=True)
    except Exception as e:
        return {'what': 'metadata-only decoding raised', 'mode': mode, 'exc': repr(e)[:300]}
    if any(s.get_metadata('index') > 4 for s in info.sections):
        return {'what': 'metadata-only decoding went past the data section header'}
    for s in info.sections:
        for prm in s:
            if prm.type == 'template_data':
                return {'what': 'metadata-only decoding decoded the data'}
    # values against the layout
    for idx, name, value in _section_params(info):
        if not _same(value, b.vals[idx].get(name)):
            return {'what': 'metadata-only value differs from the layout', 'section': idx, 'name': name, 'got': value}
    try:
        full = pbk.decoder().process(stream)
    except PyBufrKitError:
        if mode == 'valid':
            return {'what': 'full decode of a valid message raised'}
        ctx.witness('data-damaged')
        return None
    except Exception as e:
        if mode == 'valid':
            return {'what': 'full decode of a valid message raised', 'exc': repr(e)[:200]}
        ctx.witness('data-damaged')
        return None
    if mode != 'valid':
        return {'what': 'harness: damaged data decoded', 'mode': mode}
    a, c = _section_params(info), _section_params(full)
    if len(a) != len(c):
        return {'what': 'metadata-only decode has other parameters in sections 0-3 than the full decode'}
    for (i1, n1, v1), (i2, n2, v2) in zip(a, c):
        if i1 != i2 or n1 != n2 or not _same(v1, v2):
            return {'what': 'metadata-only decode differs from the full decode in sections 0-3', 'section': i1, 'name': n1,
                    'info': v1, 'full': v2}
    ctx.witness('agree')
    return None


# ---------------------------------------------------------------------------------------------------------------
# expression parsing

ALPHABET = '%.01a -'


class Reject(Exception):
    pass


class DontCare(Exception):
    pass


def ref_expr(s):
    """(section index or None, name) | Reject | DontCare - written from the property statement"""
    chars = [c for c in s]
    # surrounding blanks do not count
    while chars and chars[0] == ' ':
        chars.pop(0)
    while chars and chars[-1] == ' ':
        chars.pop()
    if not chars or chars[0] != '%':
        raise Reject('does not start with %')
    body = chars[1:]
    dots = [i for i, c in enumerate(body) if c == '.']
    if not dots:
        return None, ''.join(body)
    if len(dots) > 1:
        raise DontCare('more than one dot')
    idx, name = body[:dots[0]], body[dots[0] + 1:]
    if idx and all(c in '0123456789' for c in idx):
        return int(''.join(idx)), ''.join(name)
    if not any(c in '0123456789' for c in idx) or any(c not in '0123456789 -+_' for c in idx):
        raise Reject('non-numeric section index')
    raise DontCare('signs / blanks / underscores inside the index: Python int() leniency, documentation silent')


def h_expr(ctx):
    from pybufrkit.mdquery import MetadataExprParser
    from pybufrkit.errors import MetadataExprParsingError
    s = ctx.symstr('s', ctx.params.get('maxlen', 4), ALPHABET)
    first = ctx.params.get('first')
    if first is not None:
        if len(s) == 0 or s[0] not in first:
            ctx.assume(False)
    try:
        exp = ref_expr(s)
        why = None
    except Reject as e:
        exp, why = None, str(e)
    except DontCare:
        try:
            MetadataExprParser().parse(s)
        except (MetadataExprParsingError, ValueError):
            pass
        except Exception as e:
            return {'what': 'rejected with an exception that is neither the metadata-parsing error nor ValueError', 's': s,
                    'exc': repr(e)[:200]}
        ctx.witness('dont-care')
        return None
    try:
        got = MetadataExprParser().parse(s)
    except MetadataExprParsingError:
        if exp is not None:
            return {'what': 'a well-formed metadata expression is rejected', 's': s}
        ctx.witness('rejected')
        return None
    except Exception as e:
        return {'what': 'rejected with another exception than MetadataExprParsingError', 's': s, 'exc': repr(e)[:200]}
    if exp is None:
        return {'what': 'an expression that must be rejected is accepted', 's': s, 'why': why, 'got': repr(got)}
    if got[0] != exp[0] or got[1] != exp[1]:
        return {'what': 'wrong section index or name', 's': s, 'got': repr(got), 'exp': repr(exp)}
    ctx.witness('accepted-indexed' if exp[0] is not None else 'accepted')
    return None
