"""
C18 - script preprocessing substitutes exactly the embedded queries.

h_scan     process_embedded_query_expr on a symbolic string (z3 sequence) over { $ { } ' " # newline space x y } against an
           independent scanner: code = the text with every unquoted, uncommented ${expr} replaced by the name recorded for
           its trimmed expression; same expression <=> same name; names are distinct identifiers; nothing else changes.
h_anychar  the same with one unrestricted code point at a solver-chosen place (it must behave like an ordinary character).
h_levels   ScriptRunner.flatten_data_values / get_query_result on a QueryResult of solver-chosen shape (subsets, nesting)
           holding solver integers: level 1 = concatenation of level 2, level 0 = first of level 1 or None, level 2 = per-subset
           flattening of level 4, level 4 = the result as queried; argument beats pragma.
h_run      scripts assembled from a solver-chosen sequence of fragments (code, quoted literals and comments that contain
           ${...}, embedded data / metadata queries with solver-chosen blanks, optional pragma line, optional nest-level
           argument) run by the real ScriptRunner against a really decoded message: bound names, PBK_BUFR_MESSAGE /
           PBK_FILENAME, metadata_only <=> every expression starts with '%', literals and comments untouched, query values.
h_context  <quote> LITERAL <quote> ${a} # COMMENT with LITERAL and COMMENT symbolic strings: preprocessing leaves both alone and the
           only substitution is the embedded query between them.
"""
from vlib import pbk, msgbuild

ALPHABET = '${}\'"#\n xy'


class DontCare(Exception):
    pass


def ref_scan(s):
    """
    Independent scanner.  Returns the list of pieces ('t', char) / ('e', expression text between the braces).
    A quote opens a literal that ends at the next same quote; '#' opens a comment that ends at the newline;
    '${' outside both opens an embedded expression that ends at the next '}'.
    """
    out = []
    i, n = 0, len(s)
    mode = None
    while i < n:
        c = s[i]
        if mode is None:
            if c == '$' and i + 1 < n and s[i + 1] == '{':
                j = i + 2
                while j < n and s[j] != '}':
                    j += 1
                if j >= n:
                    raise DontCare('unterminated embedded expression (documentation silent)')
                out.append(('e', s[i + 2:j]))
                i = j + 1
                continue
            if c == "'" or c == '"':
                mode = c
            elif c == '#':
                mode = '#'
        elif mode == '#':
            if c == '\n':
                mode = None
        else:
            if c == mode:
                mode = None
            elif c == '\n':
                raise DontCare('newline inside a literal (not an escape-free one-line literal)')
        out.append(('t', c))
        i += 1
    return out


def check_preprocessing(s, code, subs, pieces):
    exprs = []
    for kind, text in pieces:
        if kind == 'e':
            t = text.strip()
            if t not in exprs:
                exprs.append(t)
    if len(subs) != len(exprs):
        return {'what': 'number of substitutions differs from the number of distinct embedded expressions', 's': s,
                'subs': repr(dict(subs)), 'exprs': exprs}
    for t in exprs:
        if t not in subs:
            return {'what': 'an embedded expression has no variable', 's': s, 'expr': t}
    names = [subs[t] for t in exprs]
    for a in range(len(names)):
        if not (isinstance(names[a], str) and names[a].isidentifier()):
            return {'what': 'substituted name is not an identifier', 's': s, 'name': repr(names[a])}
        for b in range(a + 1, len(names)):
            if names[a] == names[b]:
                return {'what': 'distinct expressions share a variable name', 's': s, 'exprs': [exprs[a], exprs[b]]}
    exp = ''
    for kind, text in pieces:
        exp += text if kind == 't' else subs[text.strip()]
    if code != exp:
        return {'what': 'preprocessed text differs from the original outside the embedded expressions', 's': s, 'got': code, 'exp': exp}
    return None


def h_scan(ctx):
    from pybufrkit.script import process_embedded_query_expr
    p = ctx.params
    s = ctx.symstr('s', p.get('maxlen', 4), p.get('alphabet', ALPHABET))
    first = p.get('first')
    if first is not None:
        if len(s) == 0 or s[0] not in first:
            ctx.assume(False)
    try:
        pieces = ref_scan(s)
    except DontCare:
        try:
            process_embedded_query_expr(s)
        except Exception as e:
            return {'what': 'preprocessing raised', 's': s, 'exc': repr(e)[:200]}
        ctx.witness('dont-care')
        return None
    try:
        code, subs = process_embedded_query_expr(s)
    except Exception as e:
        return {'what': 'preprocessing raised', 's': s, 'exc': repr(e)[:200]}
    d = check_preprocessing(s, code, subs, pieces)
    if d:
        return d
    ctx.witness('embedded' if any(k == 'e' for k, _ in pieces) else 'plain')
    return None


def h_anychar(ctx):
    from pybufrkit.script import process_embedded_query_expr
    from crosshair.core import proxy_for_type
    from crosshair.tracers import NoTracing
    p = ctx.params
    a = ctx.symstr('a', p.get('prefix', 2), '${}\'#x')
    b = ctx.symstr('b', p.get('suffix', 2), '${}\'#x')
    if ctx.mode == 'explore':
        with NoTracing():
            c = proxy_for_type(str, 'v_c')
        ctx.vars.append(('c', 'str', c))
        if len(c) != 1:
            ctx.assume(False)
    else:
        c = ctx.record['inputs']['c']
    s = a + c + b
    try:
        pieces = ref_scan(s)
    except DontCare:
        ctx.witness('dont-care')
        return None
    try:
        code, subs = process_embedded_query_expr(s)
    except Exception as e:
        return {'what': 'preprocessing raised', 's': s, 'exc': repr(e)[:200]}
    d = check_preprocessing(s, code, subs, pieces)
    if d:
        return d
    ctx.witness('checked')
    return None


# ---------------------------------------------------------------------------------------------------------------
# nest levels

def _shape(ctx, name, depth, width):
    """a nested list of solver-chosen shape; leaves are fresh solver integers"""
    n = ctx.choice(name + '_n', width + 1)
    out = []
    for i in range(n):
        if depth > 1 and ctx.choice('%s_%d_k' % (name, i), 2):
            out.append(_shape(ctx, '%s_%d' % (name, i), depth - 1, width))
        else:
            out.append(ctx.int('%s_%d_v' % (name, i), -5, 5))
    return out


def _flat(x):
    out = []
    for e in x:
        if isinstance(e, list):
            out.extend(_flat(e))
        else:
            out.append(e)
    return out


def _copy(x):
    return [_copy(e) if isinstance(e, list) else e for e in x]


def _eq(a, b):
    """structural equality of nested lists with solver-decided leaves"""
    if isinstance(a, list) != isinstance(b, list):
        return False
    if isinstance(a, list):
        if len(a) != len(b):
            return False
        for x, y in zip(a, b):
            if not _eq(x, y):
                return False
        return True
    if a is None or b is None:
        return a is None and b is None
    return bool(a == b)


class _Dummy(object):
    filename = 'F.bufr'


def h_levels(ctx):
    from pybufrkit.script import ScriptRunner
    from pybufrkit.dataquery import QueryResult
    p = ctx.params
    nsub = 1 + ctx.choice('nsub', p.get('max_subsets', 2))
    subsets = [_shape(ctx, 's%d' % i, p.get('depth', 3), p.get('width', 2)) for i in range(nsub)]
    indices = [2 * i + 1 for i in range(nsub)]   # a subset selection need not start at 0

    class Q(object):
        def query(self, bufr_message, expr):
            qr = QueryResult(expr)
            for i, vals in zip(indices, subsets):
                qr.add_subset(i, _copy(vals))
            return qr

    pragma = [None, 0, 2, 4][ctx.choice('pragma', 4)]
    got = {}
    for level in (None, 0, 1, 2, 4):
        script = 'PBK_0 if True else ${001001}'
        if pragma is not None:
            script = '#$ data_values_nest_level = %d\n' % pragma + script
        try:
            r = ScriptRunner(script, data_values_nest_level=level, mode='eval')
            r.querent = Q()
            got[level] = r.run(_Dummy())
        except Exception as e:
            return {'what': 'running the script raised', 'level': level, 'exc': repr(e)[:200]}
    l4 = [_copy(v) for v in subsets]
    l2 = [_flat(v) for v in subsets]
    l1 = _flat(l2)
    l0 = l1[0] if l1 else None
    want = {0: l0, 1: l1, 2: l2, 4: l4}
    for level in (0, 1, 2, 4):
        if not _eq(got[level], want[level]):
            return {'what': 'nesting level %d is not what the documented relation to the fully nested result gives' % level,
                    'got': got[level], 'exp': want[level], 'nested': l4}
    eff = pragma if pragma is not None else 1
    if not _eq(got[None], want[eff]):
        return {'what': 'without an argument the pragma (or the default level 1) must decide', 'pragma': pragma, 'got': got[None]}
    ctx.witness('levels-%d' % nsub)
    return None


# ---------------------------------------------------------------------------------------------------------------
# running assembled scripts against a decoded message

_MSG = {}


def prepare(params):
    from pybufrkit.decoder import Decoder
    pbk.warm_tables()
    # two subsets of [001004, 1 x delayed(012001), 002001]: s0 = 5, factor 2 (2731, 2732), 1 ; s1 = 6, factor 1 (2500), 2
    bits = []

    def put(v, n):
        bits.extend((v >> (n - 1 - k)) & 1 for k in range(n))
    for a, temps, c in ((5, (2731, 2732), 1), (6, (2500,), 2)):
        put(a, 3)
        put(len(temps), 8)
        for t in temps:
            put(t, 12)
        put(c, 2)
    data = msgbuild.message_bytes([1004, 101000, 31001, 12001, 2001], bits, n_subsets=2, edition=4, category=7)
    _MSG['bytes'] = data
    _MSG['msg'] = Decoder().process(data, file_path='F.bufr')
    _MSG['001004'] = [[5], [6]]
    _MSG['012001'] = [[273.1, 273.2], [250.0]]
    _MSG['002001'] = [[1], [2]]


def _level(vals, level, nested=None):
    if level == 4:
        return nested if nested is not None else vals
    if level == 2:
        return vals
    flat = [x for v in vals for x in v]
    if level == 1:
        return flat
    return flat[0] if flat else None


FRAGMENTS = ['code', 'sq', 'dq', 'comment', 'data', 'data-blanks', 'meta', 'meta2', 'data2', 'dollar']


def h_run(ctx):
    from pybufrkit.script import ScriptRunner
    p = ctx.params
    msg = _MSG['msg']
    n = 1 + ctx.choice('n_items', p.get('max_items', 3))
    pragma = None
    if 'pragma_fixed' in p:
        pragma = p['pragma_fixed']
    elif p.get('pragma', True):
        pragma = [None, 0, 2, 4][ctx.choice('pragma', 4)]
    arg = [None, 0, 1, 2, 4][ctx.choice('arg', 5)] if p.get('arg', True) else None
    level = arg if arg is not None else (pragma if pragma is not None else 1)
    lines, checks, exprs = [], [], []
    if pragma is not None:
        lines.append('#$ data_values_nest_level = %d' % pragma)
    for i in range(n):
        if i == 0 and 'item0' in p:
            kind = p['item0']
        else:
            kind = FRAGMENTS[ctx.choice('item%d' % i, len(FRAGMENTS))]
        v = 'v%d' % i
        if kind == 'code':
            lines.append('%s = %d' % (v, i + 40))
            checks.append((v, i + 40))
        elif kind == 'sq':
            lines.append("%s = '${001004} # not a comment'" % v)
            checks.append((v, '${001004} # not a comment'))
        elif kind == 'dq':
            lines.append('%s = "it\'s ${%%length}"' % v)
            checks.append((v, "it's ${%length}"))
        elif kind == 'comment':
            lines.append("%s = 1  # it's ${zzz} \"${%%edition}" % v)
            checks.append((v, 1))
        elif kind == 'data':
            lines.append('%s = ${001004}' % v)
            exprs.append('001004')
            checks.append((v, _level(_MSG['001004'], level)))
        elif kind == 'data-blanks':
            lead = ' ' * ctx.choice('lead%d' % i, 3)
            trail = ' ' * ctx.choice('trail%d' % i, 2)
            lines.append('%s = ${%s001004%s}' % (v, lead, trail))
            exprs.append('001004')
            checks.append((v, _level(_MSG['001004'], level)))
        elif kind == 'data2':
            lines.append('%s = ${/101000/012001}' % v)
            exprs.append('/101000/012001')
            checks.append((v, _level(_MSG['012001'], level, nested=[[[[273.1], [273.2]]], [[[250.0]]]])))
        elif kind == 'meta':
            lines.append('%s = ${%%data_category}' % v)
            exprs.append('%data_category')
            checks.append((v, 7))
        elif kind == 'meta2':
            lines.append('%s = ${ %%edition} + ${%%3.n_subsets }' % v)
            exprs += ['%edition', '%3.n_subsets']
            checks.append((v, 6))
        else:
            lines.append("%s = len('$') + len({1: 2})  # $ {" % v)
            checks.append((v, 2))
    script = '\n'.join(lines) + '\n'
    try:
        r = ScriptRunner(script, data_values_nest_level=arg)
    except Exception as e:
        return {'what': 'preparing the script raised', 'script': script, 'exc': repr(e)[:200]}
    distinct = []
    for e in exprs:
        if e not in distinct:
            distinct.append(e)
    if sorted(r.substitutions) != sorted(distinct):
        return {'what': 'substitutions are not exactly the embedded expressions', 'script': script, 'subs': sorted(r.substitutions)}
    if len(set(r.substitutions.values())) != len(distinct):
        return {'what': 'distinct expressions share a variable name', 'script': script}
    if r.metadata_only != all(e.startswith('%') for e in distinct):
        return {'what': 'metadata_only must hold exactly when every expression starts with %', 'script': script,
                'metadata_only': r.metadata_only}
    if r.pragma['data_values_nest_level'] != level:
        return {'what': 'nest level: the argument beats the pragma, the pragma beats the default', 'pragma': pragma, 'arg': arg,
                'got': r.pragma['data_values_nest_level']}
    try:
        out = r.run(msg)
    except Exception as e:
        return {'what': 'running the script raised', 'script': script, 'exc': repr(e)[:200]}
    if out.get('PBK_BUFR_MESSAGE') is not msg or out.get('PBK_FILENAME') != 'F.bufr':
        return {'what': 'message / file name are not bound', 'script': script}
    for e in distinct:
        if r.substitutions[e] not in out:
            return {'what': 'a substituted name is not bound', 'script': script, 'expr': e}
    for v, exp in checks:
        if v not in out or out[v] != exp:
            return {'what': 'a variable of the script has the wrong value', 'script': script, 'var': v, 'got': repr(out.get(v)),
                    'exp': repr(exp), 'level': level}
    ctx.witness('ran-meta-only' if r.metadata_only else 'ran')
    return None


def h_context(ctx):
    """symbolic literal and comment content inside a fixed script: preprocessing leaves them alone"""
    from pybufrkit.script import process_embedded_query_expr
    p = ctx.params
    q = ["'", '"'][ctx.choice('quote', 2)]
    alphabet = '${}#x ' + ('"' if q == "'" else "'")
    lit = ctx.symstr('lit', p.get('maxlen', 3), alphabet)
    com = ctx.symstr('com', p.get('maxcom', 2), '${}#x\'"')
    script = q + lit + q + '${a}#' + com
    try:
        code, subs = process_embedded_query_expr(script)
    except Exception as e:
        return {'what': 'preprocessing raised', 'script': script, 'exc': repr(e)[:200]}
    if len(subs) != 1 or 'a' not in subs:
        return {'what': 'text inside a literal or comment was taken for an embedded query (or the query after the literal was missed)',
                'script': script, 'subs': repr(dict(subs))}
    exp = q + lit + q + subs['a'] + '#' + com
    if code != exp:
        return {'what': 'literal or comment changed by preprocessing', 'script': script, 'got': code}
    ctx.witness('context')
    return None
