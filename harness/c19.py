"""
C19 - bit-level reading and writing are exact inverses for every width.

Real code executed: every method of pybufrkit.bitops.BitStringBitReader /
BitStringBitWriter, BitReader.read / read_uint_or_none, BitWriter.write, over
the bitstring model (explore) or the real bitstring (replay).
"""
from pybufrkit.errors import BitReadError, PyBufrKitError

ALPHABET = b'\x00 A\xff'


def _prefix(ctx, w):
    """0..7 leading bits so that every bit offset is covered."""
    off = ctx.choice('off', 8)
    for k in range(off):
        w.write_bool(ctx.bool('pre%d' % k))
    return off


def h_uint(ctx):
    lo, hi = ctx.params.get('widths', [1, 64])
    n = lo + ctx.choice('n', hi - lo + 1)
    w = ctx.writer()
    off = _prefix(ctx, w)
    v = ctx.int('v', -2, (1 << n) + 1)
    fits = bool(0 <= v) and bool(v < (1 << n))
    try:
        w.write_uint(v, n)
    except Exception as e:
        if fits:
            return {'what': 'write_uint refused a value that fits', 'n': n, 'off': off, 'v': v, 'exc': repr(e)}
        ctx.witness('refused')
        return None
    if not fits:
        return {'what': 'write_uint accepted a value that does not fit', 'n': n, 'off': off, 'v': v}
    w.write_uint(5, 3)
    if w.get_pos() != off + n + 3:
        return {'what': 'writer position', 'n': n, 'off': off, 'pos': w.get_pos()}
    src = ctx.source_of_written('rt', w)
    r = ctx.reader(src)
    for k in range(off):
        r.read_bool()
    use_none = ctx.bool('use_none')
    if use_none:
        got = r.read_uint_or_none(n)
        if n > 1 and v == (1 << n) - 1:
            exp = None
        else:
            exp = v
        if (got is None) != (exp is None) or (exp is not None and not (got == exp)):
            return {'what': 'read_uint_or_none', 'n': n, 'off': off, 'v': v, 'got': got}
    else:
        got = r.read_uint(n)
        if not (got == v):
            return {'what': 'read_uint', 'n': n, 'off': off, 'v': v, 'got': got}
    if r.get_pos() != off + n:
        return {'what': 'reader position', 'n': n, 'off': off, 'pos': r.get_pos()}
    if not (r.read_uint(3) == 5):
        return {'what': 'following field damaged', 'n': n, 'off': off}
    ctx.witness('roundtrip')
    return None


def h_int(ctx):
    lo, hi = ctx.params.get('widths', [2, 64])
    n = lo + ctx.choice('n', hi - lo + 1)
    w = ctx.writer()
    off = _prefix(ctx, w)
    lim = 1 << (n - 1)
    v = ctx.int('v', -lim - 1, lim + 1)
    fits = bool(-lim < v) and bool(v < lim)
    try:
        w.write_int(v, n)
    except Exception as e:
        if fits:
            return {'what': 'write_int refused a value that fits', 'n': n, 'v': v, 'exc': repr(e)}
        ctx.witness('refused')
        return None
    if not fits:
        return {'what': 'write_int accepted a value that does not fit', 'n': n, 'v': v}
    if w.get_pos() != off + n:
        return {'what': 'writer position', 'n': n, 'off': off, 'pos': w.get_pos()}
    r = ctx.reader(ctx.source_of_written('rt', _pad(w)))
    for k in range(off):
        r.read_bool()
    got = r.read_int(n)
    if not (got == v):
        return {'what': 'read_int', 'n': n, 'off': off, 'v': v, 'got': got}
    if r.get_pos() != off + n:
        return {'what': 'reader position', 'n': n, 'off': off, 'pos': r.get_pos()}
    ctx.witness('roundtrip')
    return None


def _pad(w):
    # bring the stream to a whole octet (real bitstring can only hand out whole bytes in replay)
    return w


def h_bytes(ctx):
    w = ctx.writer()
    off = _prefix(ctx, w)
    ln = ctx.choice('len', 4)
    value = bytes(ALPHABET[ctx.choice('c%d' % i, len(ALPHABET))] for i in range(ln))
    nb = ctx.params['nbytes'] if 'nbytes' in ctx.params else ctx.choice('nbytes', 4)
    as_text = ctx.bool('as_text')
    arg = value.decode('latin-1') if as_text else value
    ret = w.write_bytes(arg, nb)
    exp = (value + b' ' * nb)[:nb]
    if ret != exp:
        return {'what': 'write_bytes return', 'value': value, 'nb': nb, 'ret': ret}
    if w.get_pos() != off + 8 * nb:
        return {'what': 'writer position', 'pos': w.get_pos()}
    w.write_uint(2, 2)
    r = ctx.reader(ctx.source_of_written('rt', w))
    for k in range(off):
        r.read_bool()
    got = r.read_bytes(nb)
    if got != exp:
        return {'what': 'read_bytes', 'value': value, 'nb': nb, 'got': got}
    if r.get_pos() != off + 8 * nb or not (r.read_uint(2) == 2):
        return {'what': 'reader position', 'pos': r.get_pos()}
    # natural length
    w2 = ctx.writer()
    w2.write_bytes(arg)
    if w2.get_pos() != 8 * ln:
        return {'what': 'write_bytes natural length', 'pos': w2.get_pos()}
    ctx.witness('roundtrip')
    return None


def h_bin_bool(ctx):
    w = ctx.writer()
    off = _prefix(ctx, w)
    ln = ctx.choice('len', 6)
    bits = [ctx.choice('b%d' % i, 2) for i in range(ln)]
    s = ''.join(str(b) for b in bits)
    w.write_bin(s)
    flag = ctx.bool('flag')
    w.write_bool(flag)
    if w.get_pos() != off + ln + 1:
        return {'what': 'writer position', 'pos': w.get_pos()}
    r = ctx.reader(ctx.source_of_written('rt', w))
    for k in range(off):
        r.read_bool()
    got = r.read_bin(ln)
    if not (got == s):
        return {'what': 'read_bin', 's': s, 'got': got}
    gf = r.read_bool()
    if bool(gf) != bool(flag):
        return {'what': 'read_bool', 'flag': flag, 'got': gf}
    if r.get_pos() != off + ln + 1:
        return {'what': 'reader position', 'pos': r.get_pos()}
    ctx.witness('roundtrip')
    return None


KINDS = ('uint', 'int', 'bool', 'bytes', 'bin')
WIDTH_MENU = (1, 2, 7, 8, 9, 16, 24, 31)


def h_sequence(ctx):
    """A sequence of <= nfields mixed-type fields, through the generic write()/read() dispatchers."""
    nfields = ctx.params.get('nfields', 3)
    w = ctx.writer()
    off = _prefix(ctx, w) if ctx.params.get('prefix', True) else 0
    fields = []
    for i in range(nfields):
        kind = KINDS[ctx.choice('k%d' % i, len(KINDS))]
        if kind == 'uint':
            n = WIDTH_MENU[ctx.choice('w%d' % i, len(WIDTH_MENU))]
            v = ctx.int('v%d' % i, 0, (1 << n) - 1)
        elif kind == 'int':
            n = WIDTH_MENU[1 + ctx.choice('w%d' % i, len(WIDTH_MENU) - 1)]
            lim = (1 << (n - 1)) - 1
            v = ctx.int('v%d' % i, -lim, lim)
        elif kind == 'bool':
            n, v = 1, ctx.bool('v%d' % i)
        elif kind == 'bytes':
            nb = ctx.choice('w%d' % i, 3)
            n = 8 * nb
            v = bytes(ALPHABET[ctx.choice('c%d_%d' % (i, j), len(ALPHABET))] for j in range(nb))
        else:
            n = ctx.choice('w%d' % i, 4)
            v = ''.join(str(ctx.choice('c%d_%d' % (i, j), 2)) for j in range(n))
        fields.append((kind, n, v))
        w.write(v, kind, n)
    total = off + sum(n for _, n, _ in fields)
    if w.get_pos() != total:
        return {'what': 'writer position', 'pos': w.get_pos(), 'exp': total, 'fields': [(k, n) for k, n, _ in fields]}
    w.write_bool(True)
    r = ctx.reader(ctx.source_of_written('rt', w))
    for k in range(off):
        r.read_bool()
    pos = off
    for kind, n, v in fields:
        got = r.read(kind, n)
        pos += n
        ok = (bool(got) == bool(v)) if kind == 'bool' else bool(got == v)
        if not ok:
            return {'what': 'field value', 'kind': kind, 'n': n, 'v': v, 'got': got}
        if r.get_pos() != pos:
            return {'what': 'reader position', 'kind': kind, 'pos': r.get_pos(), 'exp': pos}
    ctx.witness('roundtrip')
    return None


def h_set_uint(ctx):
    """Overwriting a field in place changes exactly those bits and nothing else."""
    menu = ctx.params.get('widths', [1, 2, 7, 8, 9, 12, 16, 24, 31, 32])
    n = menu[ctx.choice('n', len(menu))]
    w = ctx.writer()
    off = _prefix(ctx, w)
    pre = ctx.int('pre', 0, 31)
    old = ctx.int('old', 0, (1 << n) - 1)
    post = ctx.int('post', 0, 31)
    w.write_uint(pre, 5)
    w.write_uint(old, n)
    w.write_uint(post, 5)
    length = w.get_pos()
    v = ctx.int('v', -1, 1 << n)
    fits = bool(0 <= v) and bool(v < (1 << n))
    try:
        w.set_uint(v, n, off + 5)
    except Exception as e:
        if fits:
            return {'what': 'set_uint refused a value that fits', 'n': n, 'off': off, 'v': v, 'exc': repr(e)}
        ctx.witness('refused')
        return None
    if not fits:
        return {'what': 'set_uint accepted a value that does not fit', 'n': n, 'v': v}
    if w.get_pos() != length:
        return {'what': 'set_uint changed the total length', 'n': n, 'off': off, 'before': length, 'after': w.get_pos()}
    r = ctx.reader(ctx.source_of_written('rt', w))
    for k in range(off):
        r.read_bool()
    if not (r.read_uint(5) == pre):
        return {'what': 'bits before the field changed', 'n': n, 'off': off}
    if not (r.read_uint(n) == v):
        return {'what': 'field does not hold the new value', 'n': n, 'off': off, 'v': v}
    if not (r.read_uint(5) == post):
        return {'what': 'bits after the field changed', 'n': n, 'off': off}
    ctx.witness('overwritten')
    return None


def h_read_past_end(ctx):
    """Any typed read that needs more bits than remain raises BitReadError."""
    total = 8 * ctx.params.get('nbytes', 3)
    src = ctx.source('S', total)
    r = ctx.reader(src)
    skip = ctx.choice('skip', total + 1)
    if skip:
        r.read_bin(skip)
    kind = ctx.params['kind'] if 'kind' in ctx.params else KINDS[ctx.choice('kind', len(KINDS))]
    if kind == 'bool':
        n = 1
    elif kind == 'bytes':
        n = 8 * (1 + ctx.choice('n', 3))
    elif kind == 'int':
        n = 2 + ctx.choice('n', 30)
    else:
        n = 1 + ctx.choice('n', 31)
    remaining = total - skip
    try:
        r.read(kind, n)
    except BitReadError:
        if n <= remaining:
            return {'what': 'BitReadError although enough bits remain', 'kind': kind, 'n': n, 'remaining': remaining}
        ctx.witness('past_end')
        return None
    except Exception as e:
        return {'what': 'read past the end raised something other than BitReadError' if n > remaining
                else 'unexpected exception', 'kind': kind, 'n': n, 'remaining': remaining, 'exc': type(e).__name__}
    if n > remaining:
        return {'what': 'read past the end succeeded', 'kind': kind, 'n': n, 'remaining': remaining}
    if r.get_pos() != skip + n:
        return {'what': 'reader position', 'pos': r.get_pos()}
    ctx.witness('in_range')
    return None
