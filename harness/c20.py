"""
C20 - in-stream table definitions govern the messages that follow them.

h_extract   BufrTableDefinitionProcessor._process_table_b_one_entry / _process_table_d_one_entry on the strings of one
            definition: sign characters and digit strings are CrossHair symbolic strings; the produced entry must carry the
            numbers the strings denote (sign applied to scale and reference, blanks ignored) and the member list.
h_apply     an element entry whose WIDTH and REFERENCE VALUE are solver integers (scale and unit from a menu) and sequence
            entries over it (incl. the NCEP replication-only sequence) are registered through the real add_extra_entries +
            invalidate; a data message over the new descriptors, standard descriptors and operators is decoded from solver
            bits by the real decoder.  Oracle: the FM-94 reference run with the table extended by exactly that entry.
h_protocol  the real generate_bufr_message over [definition message, data message]: the definition message is assembled here
            in the NCEP layout (data category 11; 1..2 element definitions, 0..2 sequence definitions) with the sign, scale,
            reference and width characters of the first element as solver bytes over digit alphabets; the data message's
            payload is solver bits.  The data message must decode by those definitions; descriptors the definition does not
            mention keep their table meaning; a definition message with zero subsets defines nothing.
"""
from vlib import pbk, fm94, msgbuild, streams, symcore as sc
from crosshair.tracers import NoTracing

DEF_TEMPLATE = [103000, 31001, 1, 2, 3, 101000, 31001, 300004, 105000, 31001, 300003, 205064, 101000, 31001, 30]


def prepare(params):
    fm94.load_tables()
    pbk.warm_tables()
    pbk.decoder()
    _native_table_loading()


def _native_table_loading():
    """
    TableGroupCache.get loads the JSON table files and builds ~1500 descriptor objects: under tracing that alone is
    20-40 s per call (measured: 45 s per path in h_protocol).  The real method is kept, it merely runs with tracing
    suspended; no solver value is branched on inside (extra entries are stored as they are).
    """
    from pybufrkit.tables import TableGroupCache
    if getattr(TableGroupCache.get, '_native', False):
        return
    orig = TableGroupCache.get

    def get(self, table_group_key):
        with NoTracing():
            return orig(self, table_group_key)
    get._native = True
    TableGroupCache.get = get


def _reset_tables():
    """extra entries are process-global and never cleared by the library: every path starts from a clean process state"""
    from pybufrkit.tables import TableGroupCacheManager
    with NoTracing():
        c = TableGroupCacheManager._TABLE_GROUP_CACHE
        c.extra_b_entries = {}
        c.extra_d_entries = {}
        c.invalidate()


def _extended(b_defs, d_defs):
    B, D = fm94.load_tables()
    B2, D2 = dict(B), dict(D)
    for fxy, (name, unit, scale, ref, width) in b_defs.items():
        B2[int(fxy)] = (name, unit, scale, ref, width)
    for fxy, members in d_defs.items():
        D2[int(fxy)] = [int(x) for x in members]
    return B2, D2


# ---------------------------------------------------------------------------------------------------------------
# extraction

def _number(text):
    """the number a blank-padded digit string denotes, or None if it is not one"""
    t = [c for c in text if c != ' ']
    if not t or any(c not in '0123456789' for c in t):
        return None
    # blanks only around the digits
    core = text.strip(' ')
    if len(core) != len(t):
        return None
    v = 0
    for c in t:
        v = v * 10 + (ord(c) - 48)
    return v


def h_extract(ctx):
    from pybufrkit.dataprocessor import BufrTableDefinitionProcessor
    p = ctx.params
    ssign = '+-'[ctx.choice('ssign', 2)]
    rsign = '+-'[ctx.choice('rsign', 2)]
    scale = ctx.symstr('scale', p.get('scale_len', 2), '0123 ')
    ref = ctx.symstr('ref', p.get('ref_len', 3), '0159 ')
    width = ctx.symstr('width', p.get('width_len', 2), '0123 ')
    n_scale, n_ref, n_width = _number(scale), _number(ref), _number(width)
    if n_scale is None or n_ref is None or n_width is None:
        ctx.witness('not-a-number')
        return None           # strings that denote no number are outside the statement
    pad = ['', ' ', '  '][ctx.choice('pad', 3)]
    values = ['0', '48', '007', 'NAME ONE' + pad, 'CONT' + pad, pad + 'KELVIN' + pad, ssign + pad, scale, rsign, ref, width]
    it = iter(values)
    try:
        key, entry = BufrTableDefinitionProcessor()._process_table_b_one_entry(lambda: next(it))
    except Exception as e:
        return {'what': 'extraction of an element definition raised', 'exc': repr(e)[:200], 'scale': scale, 'ref': ref, 'width': width}
    want = ['NAME ONE' + 'CONT', 'KELVIN', n_scale if ssign == '+' else -n_scale, n_ref if rsign == '+' else -n_ref, n_width]
    if key != '048007':
        return {'what': 'descriptor id of the definition', 'got': key}
    if len(entry) < 5 or entry[0] != want[0] or entry[1] != want[1]:
        return {'what': 'name / unit of the definition', 'got': repr(entry[:2])}
    if entry[2] != want[2] or entry[3] != want[3] or entry[4] != want[4]:
        return {'what': 'scale / reference / width of the definition are not the numbers its strings denote',
                'got': entry[2:5], 'exp': want[2:], 'scale': ssign + scale, 'ref': rsign + ref, 'width': width}
    # a sequence definition
    n = ctx.choice('n_members', 4)
    members = ['048007', '001004', '101000', '031001'][:n]
    it = iter(['3', '48', '001', 'SEQ NAME' + pad, n] + members)
    try:
        key, entry = BufrTableDefinitionProcessor()._process_table_d_one_entry(lambda: next(it))
    except Exception as e:
        return {'what': 'extraction of a sequence definition raised', 'exc': repr(e)[:200]}
    if key != '348001' or entry[0] != 'SEQ NAME' or list(entry[1]) != members:
        return {'what': 'sequence definition', 'got': repr((key, entry))}
    ctx.witness('extracted')
    return None


# ---------------------------------------------------------------------------------------------------------------
# application

APPLY_TEMPLATES = [
    [48001, 1004],
    [348001, 12001],
    [348002, 48001, 1004],
    [201130, 48001, 201000, 48001],
    [101002, 48001],
    [12001, 348003, 2001],
    [202129, 48001, 12001, 202000],
    [348002, 48001, 348002, 1004, 2001],       # the replication-only sequence used twice in one template
    [348004, 12001],                            # ... and twice inside another defined sequence
]
UNITS = ['K', 'CODE TABLE', 'FLAG TABLE', 'NUMERIC']
SCALES = [0, 1, -1, 2]


def h_apply(ctx):
    from pybufrkit.tables import TableGroupCacheManager
    p = ctx.params
    _reset_tables()
    w = ctx.int('width', 1, p.get('max_width', 32))
    ref = ctx.int('ref', -(1 << 31), 1 << 31)
    scale = SCALES[ctx.choice('scale', len(SCALES))]
    unit = UNITS[ctx.choice('unit', len(UNITS))]
    ids = APPLY_TEMPLATES[p['template']] if 'template' in p else APPLY_TEMPLATES[ctx.choice('template', len(APPLY_TEMPLATES))]
    b_entries = {'048001': ['NEW ELEMENT', unit, scale, ref, w, '', 0, 0]}
    d_members = {'348001': ['048001', '001004'], '348002': ['101000', '031001'], '348003': ['348001', '102002', '048001', '002001'],
                 '348004': ['048001', '348002', '001004', '348002', '002001', '001004']}
    d_entries = {k: ['NEW SEQUENCE', list(v)] for k, v in d_members.items()}
    TableGroupCacheManager.invalidate()
    TableGroupCacheManager.add_extra_entries(b_entries, d_entries)
    src = ctx.source('S', 512)
    # the width is decided first (one fork per width); the real code still receives the solver term
    wc = ctx.concrete(w, 1, 32)
    B2, D2 = _extended({'048001': ('NEW ELEMENT', unit, scale, ref, wc)}, d_members)
    try:
        out = fm94.reference_decode(ctx, ids, src, tables=(B2, D2), max_factor=p.get('max_factor', 2), inline_sequences=True,
                                    no_missing=bool(p.get('no_missing')))
    except fm94.RefMalformed:
        ctx.witness('malformed')
        return None
    try:
        td, pos, _ = pbk.decode_template_data(ctx, ids, src)
    except Exception as e:
        return {'what': 'decoding a message over the defined descriptors raised', 'exc': repr(e)[:300], 'ids': ids}
    d = fm94.compare_subset(pbk.labels(td.decoded_descriptors_all_subsets[0]), td.decoded_values_all_subsets[0], None, out.outs[0])
    if d:
        d['ids'] = ids
        d['definition'] = {'unit': unit, 'scale': scale, 'ref': ref, 'width': wc}
        return d
    if not (pos == out.pos):
        return {'what': 'number of bits consumed', 'got': pos, 'exp': out.pos}
    ctx.witness('applied')
    return None


# ---------------------------------------------------------------------------------------------------------------
# protocol

def _chars(s, n):
    s = s.ljust(n)[:n]
    return [bytes(s.encode('ascii'))]


def _sym_char(ctx, tag, alphabet):
    """one solver byte over the alphabet; returns (part, function giving its concrete character on this path)"""
    h = ctx.source(tag, 8)
    if ctx.mode == 'explore':
        import z3
        t = sc.unwrap(h.peek(0, 8))
        sc.add(z3.Or(*[t == ord(c) for c in alphabet]))

    def value():
        v = h.peek(0, 8)
        for c in alphabet:
            if bool(v == ord(c)):
                return c
        ctx.assume(False)
    return ('src', h, 8), value


def h_protocol(ctx):
    from pybufrkit.decoder import generate_bufr_message
    p = ctx.params
    _reset_tables()
    thorough = p.get('wide', False)
    narrow = p.get('narrow', False)      # fewer definition variants (used where the stream has more messages)
    ssign_p, ssign = _sym_char(ctx, 'ssign', '+-')
    scale_p, scale = _sym_char(ctx, 'scale', '1' if narrow else ('012' if thorough else '01'))
    rsign_p, rsign = _sym_char(ctx, 'rsign', '-' if narrow else '+-')
    ref_p, ref = _sym_char(ctx, 'ref', '7' if narrow else ('0379' if thorough else '07'))
    wt_p, wt = _sym_char(ctx, 'wtens', ' 1')
    wo_p, wo = _sym_char(ctx, 'wones', '3' if narrow else ('1358' if thorough else '38'))
    n_b = 1 + ctx.choice('n_b', 2)
    n_d = ctx.choice('n_d', 3)
    n_def_subsets = 1 if not p.get('empty_definition') else 0
    # --- the definition message (NCEP layout)
    parts = [('val', 1, 8)] + _chars('243', 3) + _chars('TABLE A ENTRY', 32) + _chars('', 32)
    parts += [('val', n_b, 8)]
    parts += _chars('0', 1) + _chars('48', 2) + _chars('001', 3) + _chars('NEW ELEMENT', 32) + _chars('', 32) + _chars('K', 24)
    parts += [ssign_p, scale_p] + _chars('', 2) + [rsign_p, ref_p] + _chars('5', 9) + [wt_p, wo_p] + _chars('', 1)
    if n_b == 2:
        parts += _chars('0', 1) + _chars('48', 2) + _chars('002', 3) + _chars('NEW CODE', 32) + _chars('', 32) + _chars('CODE TABLE', 24)
        parts += _chars('+', 1) + _chars('0', 3) + _chars('+', 1) + _chars('0', 10) + _chars('6', 3)
    parts += [('val', n_d, 8)]
    d_defs = {}
    if n_d >= 1:
        members = ['048001', '001004']
        parts += _chars('3', 1) + _chars('48', 2) + _chars('001', 3) + _chars('NEW SEQUENCE', 64) + [('val', len(members), 8)]
        for mm in members:
            parts += _chars(mm, 6)
        d_defs['348001'] = members
    if n_d >= 2:
        members = ['101000', '031001']
        parts += _chars('3', 1) + _chars('48', 2) + _chars('002', 3) + _chars('REPLICATION ONLY', 64) + [('val', len(members), 8)]
        for mm in members:
            parts += _chars(mm, 6)
        d_defs['348002'] = members
    nbits = sum((len(q) * 8) if isinstance(q, (bytes, bytearray)) else q[2] for q in parts)
    defparts, deftotal = msgbuild.message_parts(DEF_TEMPLATE, parts, nbits, n_subsets=n_def_subsets, edition=4, category=11)
    # --- the data message
    menu = [[48001, 1004]]
    if n_b == 2:
        menu.append([1004, 48002, 48001])
    if n_d >= 1:
        menu.append([348001, 12001])
    if n_d >= 2:
        menu.append([348002, 48001, 2001])
    ids = menu[ctx.choice('data_template', len(menu))]
    data = ctx.source('D', 160)
    # width of the data section: decided by the definition (18 bits at most for the new element, factor <= 1)
    # the section is made long enough for any case; trailing bits are padding
    n_data_bits = 96
    dataparts, datatotal = msgbuild.message_parts(ids, [('src', data, n_data_bits)], n_data_bits, n_subsets=1, edition=4, category=0)
    # the definitions as written on this path (the solver characters are decided here, before anything is decoded)
    n_scale = int(scale())
    n_ref = int(ref() + '5')
    width = int((wt() + wo()).strip())
    b_defs = {'048001': ('NEW ELEMENT', 'K', n_scale if ssign() == '+' else -n_scale, n_ref if rsign() == '+' else -n_ref, width)}
    if n_b == 2:
        b_defs['048002'] = ('NEW CODE', 'CODE TABLE', 0, 0, 6)
    # optionally a SECOND definition message that gives 048001 (and the first sequence) another meaning
    def2parts = []
    if p.get('redefine') and ctx.choice('redefine', 2):
        q2 = [('val', 0, 8), ('val', 1, 8)]
        q2 += _chars('0', 1) + _chars('48', 2) + _chars('001', 3) + _chars('REDEFINED', 32) + _chars('', 32) + _chars('NUMERIC', 24)
        q2 += _chars('+', 1) + _chars('0', 3) + _chars('-', 1) + _chars('10', 10) + _chars('7', 3)
        b_defs['048001'] = ('REDEFINED', 'NUMERIC', 0, -10, 7)
        if n_d >= 1:
            members = ['001004', '048001', '048001']
            q2 += [('val', 1, 8)] + _chars('3', 1) + _chars('48', 2) + _chars('001', 3) + _chars('NEW SEQUENCE', 64) + [('val', len(members), 8)]
            for mm in members:
                q2 += _chars(mm, 6)
            d_defs['348001'] = members
        else:
            q2 += [('val', 0, 8)]
        nb2 = sum((len(q) * 8) if isinstance(q, (bytes, bytearray)) else q[2] for q in q2)
        def2parts, _ = msgbuild.message_parts(DEF_TEMPLATE, q2, nb2, n_subsets=1, edition=4, category=11)
        ctx.witness('redefined')
    B2, D2 = _extended(b_defs, d_defs)
    malformed = False
    out = None
    if n_def_subsets:
        try:
            out = fm94.reference_decode(ctx, ids, data, tables=(B2, D2), max_factor=1, inline_sequences=True,
                                        no_missing=not p.get('with_missing'))
        except fm94.RefMalformed:
            malformed = True
    stream = streams.flatten_parts(ctx, list(defparts) + list(def2parts) + list(dataparts),
                                   string_alphabet=[ord(c) for c in '+- 0123456789'])
    got = []
    err = None
    try:
        for bm in generate_bufr_message(pbk.decoder(), stream):
            got.append(bm)
            if len(got) > 3:
                break
    except Exception as e:
        err = e
    if n_def_subsets == 0:
        # nothing was defined: the data message cannot be decoded (its descriptors are in no table)
        from pybufrkit.errors import PyBufrKitError
        if err is None or not isinstance(err, PyBufrKitError):
            return {'what': 'a definition message without subsets must define nothing', 'delivered': len(got), 'exc': repr(err)[:200]}
        ctx.witness('nothing-defined')
        return None
    if malformed:
        # e.g. a missing (all ones) replication factor: the data message is not a valid one
        ctx.witness('malformed')
        return None
    if err is not None:
        return {'what': 'scanning [definition message(s), data message] raised', 'exc': repr(err)[:300], 'delivered': len(got),
                'definitions': repr(b_defs), 'ids': ids}
    n_defs = 2 if def2parts else 1
    if len(got) != n_defs + 1 or got[0].data_category.value != 11:
        return {'what': 'messages delivered', 'n': len(got)}
    td = got[-1].template_data.value
    d = fm94.compare_subset(pbk.labels(td.decoded_descriptors_all_subsets[0]), td.decoded_values_all_subsets[0], None, out.outs[0])
    if d:
        d['ids'] = ids
        d['definitions'] = repr(b_defs)
        return d
    # descriptor attributes as defined
    for dsc in td.decoded_descriptors_all_subsets[0]:
        if str(dsc) == '048001':
            name, unit, sc_, rf, wd = b_defs['048001']
            if (dsc.name, dsc.unit, dsc.scale, dsc.refval, dsc.nbits) != (name, unit, sc_, rf, wd):
                return {'what': 'the defined element does not carry the defined name / unit / scale / reference / width',
                        'got': repr((dsc.name, dsc.unit, dsc.scale, dsc.refval, dsc.nbits)), 'exp': repr(b_defs['048001'])}
    ctx.witness('governed')
    if ids[0] == 348002:
        ctx.witness('replication-only-sequence')
    return None
