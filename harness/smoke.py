"""Engine smoke harnesses (self-test, DESIGN section 6)."""
from vlib import pbk, fm94, symcore as sc


def h_decode_small(ctx):
    ids = ctx.params.get('ids', [201135, 1002, 201000, 20003, 101000, 31001, 1001, 12001])
    src = ctx.source('S', 256)
    try:
        ref = fm94.reference_decode(ctx, ids, src, max_factor=2)
        exp_err = None
    except fm94.RefMalformed as e:
        ref, exp_err = None, e
    try:
        td, pos, _ = pbk.decode_template_data(ctx, ids, src)
    except Exception as e:
        if exp_err is not None:
            return None
        return {'unexpected': repr(e)}
    if ref is None:
        return None
    ctx.witness('decoded')
    d = fm94.compare_subset(pbk.labels(td.decoded_descriptors_all_subsets[0]), td.decoded_values_all_subsets[0],
                            td.bitmap_links_all_subsets[0], ref.outs[0])
    if d:
        return d
    if pos != ref.pos:
        return {'pos': [pos, ref.pos]}
    return None


def prepare(params):
    fm94.load_tables()
    pbk.warm_tables()
    pbk.decoder()
