from vlib.driver import Job
from vlib import families, corpus

CONFORMANCE = [corpus.conformance]

META = {
    'level': 'model_checking',
    'files': ['pybufrkit/coder.py', 'pybufrkit/decoder.py', 'pybufrkit/bitops.py', 'pybufrkit/descriptors.py',
              'pybufrkit/tables.py', 'pybufrkit/bufr.py', 'pybufrkit/templatedata.py', 'pybufrkit/tables/0/0_0/33'],
    'functions': ['decoder.Decoder.process_template_data', 'coder.Coder.process_template/process_members/process_element_descriptor/'
                  'process_operator_descriptor/process_*replication*/process_bitmap_definition/process_bitmapped_descriptor/'
                  'process_associated_field/process_skipped_local_descriptor/process_define_new_refval',
                  'coder.CoderState.*', 'decoder.Decoder.process_{numeric,codeflag,string,new_refval,constant}_{un,}compressed, '
                  'define_bitmap, get_value_for_delayed_replication_factor', 'bitops.BitReader.read_uint_or_none',
                  'bitops.BitStringBitReader.*', 'descriptors.*.__str__', 'bufr.BufrMessage.build_template',
                  'tables.BufrTableGroup.template_from_ids'],
    'bounds': ['templates: the program families of vlib/families.py (each <= 9 value fields, nesting <= 2)',
               'delayed replication factors 0..2 (quick) / 0..3 (thorough); larger factors pruned',
               '1..2 subsets (3 in thorough); compressed difference width field (6 bits) symbolic but bounded to 0..2 (quick) / 0..4 (thorough)',
               'every payload bit is a solver variable; value fields fork on missing/not missing except in the bitmap families, where '
               'attribute and element values are assumed not missing (structure bits - factors, bitmap bits - stay symbolic)',
               'strings: opaque content (position/width/pass-through) when uncompressed; compressed character columns over bytes {00,41,FF}, field width 1 byte, difference width <= 2 bytes'],
    'assumptions': ['FM-94 reference interpreter vlib/fm94.py is the oracle (validated concretely against the decoder on the sample corpus)',
                    'scaled values are compared as Quot(raw+ref, 10**scale): numerator decided by the solver, denominator compared as a constant; '
                    'IEEE division itself is the subject of the E2 lemmas of C03',
                    'streams the reference classifies as malformed (missing factor, more attribute values than zero bits, ...) are outside the property'],
    'outside': ['operators 241-243, delayed repetition 031011/031012 (NotImplementedError, documented)',
                '201/202/207 applied to class-31 factors; 204 combined with marker operators; 221 spans over non-element descriptors',
                'whole-message editions are covered by C04/C17 harnesses'],
    'trusted_base': ['CrossHair 0.0.110 / z3 5.1', 'bitstring model (validated by conformance sweep)', 'FM-94 reference (validated on the corpus)'],
}

MANIFEST = {
    'level_text': ('Bounded symbolic model checking: the real Decoder.process_template_data (interpreted template walk, all operator '
                   'state, compressed and uncompressed readers, real bitops classes) is executed symbolically over a stream whose every '
                   'bit is a solver variable and compared, on every path, with an independent FM-94 reference reading the same bit '
                   'variables (values, labels, bitmap links, end position). Programs (templates) are an enumerated menu; data is exhaustive '
                   'within the bounds.'),
    'level_note': ('Trusted: CrossHair/z3; bitstring model (conformance-swept, counterexamples replayed on the real library); the FM-94 '
                   'reference interpreter (checked concretely against the decoder on the 155 sample files).'),
}


def _sel(fams, seed, k):
    if k >= len(fams):
        return list(fams)
    import random
    r = random.Random(seed)
    return r.sample(list(fams), k)


def jobs(tier, seed):
    J = []
    thorough = tier == 'thorough'
    mf = 3 if thorough else 2
    for f in families.VALUE_FAMILIES:
        J.append(Job('u1:' + f['name'], 'harness.c01', 'h_decode', {'family': f['name'], 'max_factor': min(mf, f.get('max_factor', mf))},
                     timeout=900, witnesses=['decoded']))
    for f in families.BITMAP_FAMILIES:
        J.append(Job('u1:' + f['name'], 'harness.c01', 'h_decode', {'family': f['name']}, timeout=1500, witnesses=['decoded']))
    for f in families.COMPRESSED_FAMILIES:
        J.append(Job('c2:' + f['name'], 'harness.c01', 'h_decode',
                     {'family': f['name'], 'compressed': True, 'n_subsets': 2, 'max_diff_width': 3 if thorough else 1,
                      'strings': 'alphabet' if 'str' in f['name'] else 'opaque'},
                     timeout=3000 if thorough else 400, witnesses=['decoded']))
    J.sort(key=lambda j: 0 if j.name.startswith('c2') else 1)   # long jobs first
    for name in ('c-num', 'c-code', 'c-str'):
        # one column, every difference width up to 4 (8 in thorough)
        fam = families.by_name(name)
        J.append(Job('c2w:' + name, 'harness.c01', 'h_decode',
                     {'ids': fam['ids'][:1], 'compressed': True, 'n_subsets': 2,
                      'max_diff_width': (2 if 'str' in name else (8 if thorough else 4)),
                      'strings': 'alphabet' if 'str' in name else 'opaque'}, timeout=900, witnesses=['decoded']))
    if thorough:
        for f in families.VALUE_FAMILIES:
            J.append(Job('u2:' + f['name'], 'harness.c01', 'h_decode', {'family': f['name'], 'n_subsets': 2, 'max_factor': 1, 'nbits': 1024},
                         timeout=2400, witnesses=['decoded'], core=False))
        for name in ('c-num', 'c-code', 'c-str', 'c-rep'):
            J.append(Job('c3:' + name, 'harness.c01', 'h_decode', {'family': name, 'compressed': True, 'n_subsets': 3, 'max_diff_width': 3,
                                                                  'strings': 'alphabet' if 'str' in name else 'opaque'},
                         timeout=3000, core=False))
        for name in ('plain', 'op201', 'op203', 'op204', 'qa222', 'stat224'):
            J.append(Job('c2big:' + name, 'harness.c01', 'h_decode', {'family': name, 'compressed': True, 'n_subsets': 2, 'max_diff_width': 2,
                                                                     'no_missing': True, 'max_factor': 1}, timeout=3000, core=False))
    # canaries
    C = [('canary:refsign', 'plain', 'pybufrkit.decoder::                value += refval\n            if scale_powered != 1:\n                value /= scale_powered\n        state.decoded_values.append(value)-->>                value -= refval\n            if scale_powered != 1:\n                value /= scale_powered\n        state.decoded_values.append(value)'),
         ('canary:201', 'op201', 'pybufrkit.coder::state.nbits_offset = (operand_value - 128) if operand_value else 0-->>state.nbits_offset = (operand_value - 127) if operand_value else 0'),
         ('canary:bitmap-zero', 'qa222', 'pybufrkit.coder::) if bit == 0\n-->>) if bit == 1\n'),
         ('canary:207', 'op207', 'pybufrkit.coder::nbits_increment=(10 * operand_value + 2) // 3-->>nbits_increment=(10 * operand_value + 1) // 3')]
    for name, fam, mut in (C if thorough else C[:3]):
        J.append(Job(name, 'harness.c01', 'h_decode', {'family': fam}, timeout=600, mutate=mut, max_cex=1))
    J.append(Job('canary:compressed-onebit', 'harness.c01', 'h_decode',
                 {'family': 'c-num', 'compressed': True, 'n_subsets': 2, 'max_diff_width': 2}, timeout=900, max_cex=1,
                 mutate='pybufrkit.decoder::                if diff == 1 and nbits_diff == 1:\n                    diff = None\n                if diff is None:\n                    value = None\n                else:\n                    value = min_value + diff\n                    if refval:-->>                if diff == 1 and nbits_diff == 2:\n                    diff = None\n                if diff is None:\n                    value = None\n                else:\n                    value = min_value + diff\n                    if refval:'))
    return J
