from vlib.driver import Job
from vlib import families

META = {
    'level': 'model_checking',
    'files': ['pybufrkit/encoder.py', 'pybufrkit/coder.py', 'pybufrkit/bitops.py', 'pybufrkit/descriptors.py', 'pybufrkit/tables.py'],
    'functions': ['encoder.Encoder.process_template_data', 'encoder.Encoder.process_{numeric,codeflag,string,new_refval,constant}_{un,}compressed',
                  'encoder.nbits_for_uint', 'encoder.Encoder._next_compressed_values_and_status_from_all_subsets',
                  'encoder.Encoder.define_bitmap / get_value_for_delayed_replication_factor / process_unexpanded_descriptors',
                  'coder.Coder.* (template walk, operator state)', 'coder.CoderState.*', 'bitops.BitStringBitWriter.*'],
    'bounds': ['value lists = the FM-94 reading of a stream whose every bit is a solver variable (so: every conforming value list of the program, '
               'incl. 0, max, missing, 1-bit fields); program families of vlib/families.py; factors 0..2 (3 thorough)',
               'compressed: 2 subsets (3 thorough), per-column spread bounded by difference width <= 1 (quick) / 2..3 (thorough); values within the '
               'field range raw 0..2^n-2 or missing',
               'user strings of length 0..3 over {20,41,E9,00} for a 2-byte field, as bytes, as text and as None'],
    'assumptions': ['FM-94 reference interpreter vlib/fm94.py (validated on the corpus) defines the canonical reading',
                    'scaled values are Quot(raw+ref, 10**scale); value * 10**scale rounds back to the numerator (lemma L1, C03)',
                    '"negative zero" new reference values and compressed entries outside the field range are not conforming value lists'],
    'outside': ['JSON text parsing of Encoder.process(str) (json.loads is C code)', 'minimality of the compressed difference width (not demanded by the property)'],
    'trusted_base': ['CrossHair 0.0.110 / z3 5.1', 'bitstring model (conformance-swept)', 'FM-94 reference'],
}

MANIFEST = {
    'level_text': ('Bounded symbolic model checking of the real Encoder.process_template_data: the value list is the symbolic FM-94 reading of a '
                   'stream of solver bits; uncompressed output must equal that stream field by field (solver-decided equalities), compressed output '
                   'must be read back by the independent reference as exactly the values with the canonical column shape; all paths explored.'),
    'level_note': 'Trusted: CrossHair/z3, bitstring model (conformance-swept; counterexamples replayed on the real library), FM-94 reference (corpus-validated).',
}


def jobs(tier, seed):
    J = []
    thorough = tier == 'thorough'
    mf = 3 if thorough else 2
    for f in families.COMPRESSED_FAMILIES:
        J.append(Job('c2:' + f['name'], 'harness.c02', 'h_encode',
                     {'family': f['name'], 'compressed': True, 'n_subsets': 2, 'max_diff_width': 2 if thorough else 1,
                      'strings': 'alphabet' if 'str' in f['name'] else 'opaque'},
                     timeout=3000 if thorough else 500, witnesses=['encoded', 'compressed-checked']))
    for name in ('c-num', 'c-code'):
        fam = families.by_name(name)
        J.append(Job('c2w:' + name, 'harness.c02', 'h_encode',
                     {'ids': fam['ids'][:1], 'compressed': True, 'n_subsets': 3 if thorough else 2, 'max_diff_width': 4 if thorough else 3},
                     timeout=3000 if thorough else 500, witnesses=['compressed-checked']))
    for f in families.VALUE_FAMILIES:
        J.append(Job('u1:' + f['name'], 'harness.c02', 'h_encode', {'family': f['name'], 'max_factor': min(mf, f.get('max_factor', mf))},
                     timeout=900, witnesses=['encoded']))
    for f in families.BITMAP_FAMILIES:
        J.append(Job('u1:' + f['name'], 'harness.c02', 'h_encode', {'family': f['name']}, timeout=1500, witnesses=['encoded']))
    J.append(Job('strings', 'harness.c02', 'h_encode_strings', {}, timeout=600, witnesses=['strings']))
    J.append(Job('strings-compressed', 'harness.c02', 'h_encode_strings', {'compressed': True}, timeout=600, witnesses=['strings']))
    J.append(Job('unexpanded-descriptors', 'harness.c02', 'h_unexpanded', {}, timeout=600, witnesses=['packed']))
    # two subsets of uncompressed data whose bitmaps differ: every marker field must take the width / scale / reference of the
    # element designated by ITS subset's bitmap
    for name in ('sub223', 'stat224', 'diff225', 'rep232') + (('qa222', 'reuse-237', 'two-bitmaps') if thorough else ()):
        J.append(Job('u2:' + name, 'harness.c02', 'h_encode', {'family': name, 'n_subsets': 2, 'max_factor': 1, 'nbits': 1024, 'no_missing': True},
                     timeout=2400 if thorough else 900, witnesses=['encoded']))
    if thorough:
        for f in families.VALUE_FAMILIES:
            J.append(Job('u2:' + f['name'], 'harness.c02', 'h_encode', {'family': f['name'], 'n_subsets': 2, 'max_factor': 1, 'nbits': 1024},
                         timeout=2400, witnesses=['encoded'], core=False))
    C = [('canary:refsign', {'family': 'plain2'}, 'pybufrkit.encoder::            if refval:\n                value -= refval\n        else:\n            value = NUMERIC_MISSING_VALUES[nbits]\n        bit_writer.write_uint(value, nbits)-->>            if refval:\n                value += refval\n        else:\n            value = NUMERIC_MISSING_VALUES[nbits]\n        bit_writer.write_uint(value, nbits)'),
         ('canary:missing-diff', {'family': 'c-code', 'compressed': True, 'n_subsets': 2, 'max_diff_width': 2},
          'pybufrkit.encoder::                if value is None:\n                    value = NUMERIC_MISSING_VALUES[nbits_diff]\n                else:\n                    value -= min_value\n                values[idx] = value\n\n        bit_writer.write_uint(min_value, nbits_min_value)\n        bit_writer.write_uint(nbits_diff, NBITS_FOR_NBITS_DIFF)\n\n        if nbits_diff:\n            for value in values:\n                bit_writer.write_uint(value, nbits_diff)\n\n    def process_new_refval-->>                if value is None:\n                    value = NUMERIC_MISSING_VALUES[nbits_diff] - 1\n                else:\n                    value -= min_value\n                values[idx] = value\n\n        bit_writer.write_uint(min_value, nbits_min_value)\n        bit_writer.write_uint(nbits_diff, NBITS_FOR_NBITS_DIFF)\n\n        if nbits_diff:\n            for value in values:\n                bit_writer.write_uint(value, nbits_diff)\n\n    def process_new_refval'),
         ('canary:all-equal', {'family': 'c-num', 'compressed': True, 'n_subsets': 2, 'max_diff_width': 1},
          'pybufrkit.encoder::all_equal = values.count(values[0]) == state.n_subsets-->>all_equal = values.count(values[0]) >= state.n_subsets - 1')]
    for name, params, mut in C:
        J.append(Job(name, 'harness.c02', 'h_encode', params, timeout=600, mutate=mut, max_cex=1))
    return J
