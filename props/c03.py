from vlib.driver import Job
from vlib import families
from harness.c03 import REFUSAL_TEMPLATES

META = {
    'level': 'model_checking',
    'files': ['pybufrkit/encoder.py', 'pybufrkit/decoder.py', 'pybufrkit/bitops.py', 'pybufrkit/renderer.py', 'pybufrkit/utils.py',
              'pybufrkit/coder.py'],
    'functions': ['encoder.Encoder.process_numeric_uncompressed / process_numeric_compressed (AST -> SMT, E2)',
                  'decoder.Decoder.process_numeric_uncompressed (AST -> SMT, E2)',
                  'encoder.Encoder.process_template_data and decoder.Decoder.process_template_data with everything below (E1)',
                  'bitops.BitStringBitWriter.write_uint (range enforcement)', 'renderer.FlatJsonRenderer._render_template_data'],
    'bounds': ['(a) quantisation, E2: L2 kernel == round-to-nearest at all 3 scaling sites for every double |v*sp| < 2^52 (bit-precise QF_BVFP); '
               'L1 grid exactness bit-precise for |n| <= 4096 (quick) / 2^16 (thorough) per scale class; L1R/L3R for |n| <= 2^40 and every '
               'scale of every bundled Table B (+201/202/207 variants) under the standard model of IEEE-754 (relative error 2^-53 per operation)',
               '(b) refusal, E1: one numeric field per template of the menu (incl. 201/202/203/207/225255-modified), value a solver integer from '
               'ref - 2^n - 3 to ref + 2^(n+1) + 3, as int (scale 0) or as Quot(num, 10**scale)',
               '(c) fixpoints, E1: D -> E -> D -> E on the program families, every payload bit a solver variable; foreign compressed streams with '
               'any difference width <= 1 (quick) / 2 (thorough) whose entries still fit their element width'],
    'assumptions': ['Quot/FInt abstraction of scaled values in E1 runs, justified by L1/L1R',
                    'L1R/L3R: standard model of floating-point arithmetic, no overflow/underflow in the stated range; tolerance (1 + 2^-18) on "half a unit"',
                    'strings longer than their field are truncated (documented behaviour, C19)'],
    'outside': ['a missing value given for a 1-bit field (FM-94 has none; the encoder writes 1)', 'refusal of out-of-range values in COMPRESSED data (the property restricts refusal to uncompressed data; what is checked there is that nothing is silently altered)', 'json.dumps / json.loads text round trip of floats',
                'foreign compressed streams whose minimum + difference exceeds the element width (not valid FM-94 data)'],
    'trusted_base': ['CrossHair 0.0.110 / z3 5.1', 'cvc5 1.0.3 binary (QF_BVFP)', 'bitstring model (conformance-swept)', 'FM-94 reference'],
}

MANIFEST = {
    'uses_e2': True,
    'level_text': ('Bounded solver-based checking. E2: the numeric kernels are translated from the current AST to SMT (bit-precise IEEE-754 '
                   'binary64 and a real-arithmetic standard-model encoding) and the round-to-nearest, grid-exactness and half-unit obligations '
                   'are discharged by cvc5/z3. E1: refusal of out-of-range values and the decode/encode fixpoint are explored path-exhaustively '
                   'on the real encoder/decoder with solver integers/bits.'),
    'level_note': ('Trusted: z3, cvc5, CrossHair; the AST translator (fails closed: an untranslatable kernel is inconclusive; canary mutations of '
                   'the kernels must flip the verdict); bitstring model; FM-94 reference.'),
    'technique': 'SMT obligations generated from the AST of the real kernels (cvc5 QF_BVFP, z3 NRA) + CrossHair/z3 path-exhaustive symbolic execution',
}


def jobs(tier, seed):
    J = []
    thorough = tier == 'thorough'
    e2 = dict(module='vlib.e2', engine='E2-smt')
    J.append(Job('E2:L2-rounding', harness='L2', params={'scales': [1, 2, -1, 5] + ([3, -2, 13, -16] if thorough else [])}, timeout=600, **e2))
    J.append(Job('E2:L1R-grid-standard-model', harness='L1R', params={'max_width': 32}, timeout=600, **e2))
    J.append(Job('E2:L3R-half-unit-standard-model', harness='L3R', params={'max_width': 32, 'W': 33}, timeout=600, **e2))
    for sc_ in ([1, 2, -1] if not thorough else [1, 2, 3, 4, 5, -1, -2, -3]):
        N = (1 << 16) if thorough else 4096
        J.append(Job('E2:L1-grid-bitprecise[scale=%d,|n|<=%d]' % (sc_, N), harness='L1',
                     params={'max_width': 32, 'scales': [sc_], 'max_abs': N, 'query_timeout': 3000 if thorough else 200,
                             'chunks': 4 if thorough else 1}, timeout=3200 if thorough else 250, core=not thorough, **e2))
    for t in sorted(REFUSAL_TEMPLATES):
        J.append(Job('refusal:' + t, 'harness.c03', 'h_refusal', {'template': t}, timeout=300, witnesses=['refused', 'written']))
    for t in (('int7', 'ref5', 'scaled12', 'w201') if thorough else ('int7', 'ref5')):
        J.append(Job('compressed-unaltered:' + t, 'harness.c03', 'h_compressed_unaltered', {'template': t, 'n_subsets': 3 if thorough else 2,
                                                                                           'with_missing': True},
                     timeout=3000 if thorough else 900, witnesses=['unaltered', 'refused'], core=not thorough))
    J.append(Job('refusal:diff225-marker', 'harness.c03', 'h_refusal', {'template': 'diff225', 'target_index': 4}, timeout=300,
                 witnesses=['refused', 'written']))
    fams = [f['name'] for f in families.VALUE_FAMILIES] + ['qa222', 'stat224', 'diff225', 'reuse-237']
    for name in fams:
        J.append(Job('fix:u1:' + name, 'harness.c03', 'h_fixpoint', {'family': name, 'max_factor': 2 if thorough else 1}, timeout=900,
                     witnesses=['fixpoint']))
    for f in families.COMPRESSED_FAMILIES:
        J.append(Job('fix:c2:' + f['name'], 'harness.c03', 'h_fixpoint',
                     {'family': f['name'], 'compressed': True, 'n_subsets': 2, 'max_diff_width': 2 if thorough else 1, 'max_factor': 1,
                      'strings': 'alphabet' if 'str' in f['name'] else 'opaque'}, timeout=3000 if thorough else 500, witnesses=['fixpoint']))
    # canaries
    trunc = 'pybufrkit.encoder::                value = int(round(value * scale_powered))\n            if refval:\n                value -= refval\n        else:-->>                value = int(value * scale_powered)\n            if refval:\n                value -= refval\n        else:'
    J.append(Job('canary:E2-truncation-L2', harness='L2', params={'scales': [1]}, timeout=300, mutate=trunc, **e2))
    J.append(Job('canary:E2-truncation-L1', harness='L1', params={'max_width': 32, 'scales': [2], 'max_abs': 1024, 'query_timeout': 200},
                 timeout=300, mutate=trunc, **e2))
    J.append(Job('canary:wrap', 'harness.c03', 'h_refusal', {'template': 'int7'}, timeout=300, max_cex=1,
                 mutate='pybufrkit.bitops::    def write_uint(self, value, nbits):\n        value = int(value)-->>    def write_uint(self, value, nbits):\n        value = int(value) % (1 << nbits)'))
    J.sort(key=lambda j: 0 if j.name.startswith('E2:L1-') else 1)
    return J
