from vlib.driver import Job

META = {
    'level': 'model_checking',
    'files': ['pybufrkit/encoder.py', 'pybufrkit/decoder.py', 'pybufrkit/bufr.py', 'pybufrkit/bitops.py', 'pybufrkit/definitions'],
    'functions': ['encoder.Encoder.process / process_section / process_unexpanded_descriptors',
                  'decoder.Decoder.process / process_section / process_unexpanded_descriptors',
                  'bufr.SectionConfigurer.configure_section / configure_section_with_values / get_configuration / ignore_value_expectation',
                  'bufr.BufrSection.get_parameter_offset', 'bitops.BitStringBitWriter.set_uint / skip / write_bin / write_bytes / to_bytes',
                  'bitops.BitStringBitReader.read_bin / read_bytes / read_uint'],
    'bounds': ['E2 (unbounded): the padding / declared-length arithmetic of Encoder.process_section, translated from the current AST to z3 '
               'integers, for EVERY bit length, start offset, edition number and declared length',
               'E1: whole messages, editions 2/3/4 x section 2 present/absent (one job each); data section of 0..17 (quick) / 0..40 (thorough) '
               'opaque solver bits (every residue modulo 16 at least once, thorough twice), 1..2 descriptors, section 2 of 0..2 local octets, '
               'header fields solver integers over their full range',
               'E1 honour mode: one solver-chosen section declares its natural extent -1,+2 (quick) / -2,-1,+1,+2,+3 (thorough) octets, the others declare the natural '
               'extent or 0; the total is declared 0, exact or off by one',
               'E1 decoder: independently assembled streams, data section of 0..8 bits and one solver-chosen section with 1 surplus octet (quick) / every section independently with 0..2 (thorough) of arbitrary solver bits, an '
               'arbitrary section-0 length field, 0..2 arbitrary trailing bytes, or one section (1 or 4) declared 1..2 octets shorter than its content'],
    'assumptions': ['the data section content is written / read by a harness override of process_template_data (n opaque bits): framing is '
                    'the subject, template processing is C01/C02',
                    'FM-94 section layouts (octet counts per edition) are written out in harness/c04.py'],
    'outside': ['edition 1 (no section-1 length field)', 'sections 2 and 3 declared "shorter than their content": their content size is '
                'defined by the declared length itself', 'surplus of more than 8 octets in one section (bitstring model reads fills of <= 64 bits as one field)'],
    'trusted_base': ['CrossHair 0.0.110 / z3 5.1', 'bitstring model (conformance-swept)', 'AST -> z3 integer translator of vlib/e2int.py '
                     '(fails closed; canary must flip it; counterexamples replayed on the real process_section)'],
}

MANIFEST = {
    'uses_e2': True,
    'level_text': ('Bounded symbolic model checking plus one unbounded solver lemma. E2: the padding and declared-length arithmetic of the real '
                   'Encoder.process_section is translated from the AST to z3 integers and proved for every bit length / edition / declared length. '
                   'E1: the real Encoder.process and Decoder.process (sections, length back-patching, surplus skipping, optional section 2, '
                   'serialized span) run on whole messages whose data-section bit length, declared lengths, surplus octets and trailing bytes '
                   'are solver-chosen and whose header and payload bits are solver variables; layout is compared with FM-94 octet arithmetic.'),
    'level_note': 'Trusted: CrossHair/z3, bitstring model, the FM-94 octet tables in the harness, the integer AST translator (canary-checked).',
    'technique': 'CrossHair/z3 path-exhaustive symbolic execution of the real encoder/decoder + z3 integer obligations generated from the AST of Encoder.process_section',
}


def jobs(tier, seed):
    J = []
    thorough = tier == 'thorough'
    J.append(Job('E2:section-arithmetic', module='vlib.e2int', harness='PAD', engine='E2-smt', timeout=120))
    mb = 40 if thorough else 17
    for ed in (2, 3, 4):
        for sec2 in (0, 1):
            tag = 'ed%d%s' % (ed, '+s2' if sec2 else '')
            J.append(Job('enc:recompute:' + tag, 'harness.c04', 'h_encode', {'edition': ed, 'sec2': sec2, 'max_bits': mb},
                         timeout=3000 if thorough else 900, witnesses=['encoded']))
            J.append(Job('dec:' + tag, 'harness.c04', 'h_decode', {'edition': ed, 'sec2': sec2, 'max_bits': mb if thorough else 8,
                                                                   'max_surplus': 2 if thorough else 1, 'surplus_mode': 'each' if thorough else 'one'},
                         timeout=6000 if thorough else 900, witnesses=['decoded', 'short-refused'], core=not (sec2 and not thorough)))
            if thorough or (ed, sec2) in ((3, 1), (4, 0), (2, 0)):
                J.append(Job('enc:honour:' + tag, 'harness.c04', 'h_encode', {'edition': ed, 'sec2': sec2, 'honour': True,
                                                                              'max_bits': 16 if thorough else 5,
                                                                              'deltas': [-2, -1, 1, 2, 3] if thorough else [-1, 2]},
                             timeout=6000 if thorough else 900, witnesses=['encoded', 'refused']))
    pad = ('pybufrkit.encoder::nbits_padding_for_octet = 0 if nbits_residue == 0 else (2 * NBITS_PER_BYTE - nbits_residue)'
           '-->>nbits_padding_for_octet = 0 if nbits_residue == 0 else (NBITS_PER_BYTE - nbits_residue)')
    J.append(Job('canary:E2-even-padding', module='vlib.e2int', harness='PAD', engine='E2-smt', timeout=120, mutate=pad))
    J.append(Job('canary:E1-even-padding', 'harness.c04', 'h_encode', {'edition': 3, 'sec2': 0, 'max_bits': 17}, timeout=600, max_cex=1, mutate=pad))
    J.append(Job('canary:surplus-skip', 'harness.c04', 'h_decode', {'edition': 4, 'sec2': 0, 'max_bits': 9, 'max_surplus': 1}, timeout=600, max_cex=1,
                 mutate='pybufrkit.decoder::            if nbits_unread > 0:-->>            if nbits_unread > 8:'))
    return J
