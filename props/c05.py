from vlib.driver import Job
from vlib import families

META = {
    'level': 'model_checking',
    'files': ['pybufrkit/encoder.py', 'pybufrkit/decoder.py', 'pybufrkit/coder.py', 'pybufrkit/bitops.py'],
    'functions': ['encoder.Encoder.process_numeric_compressed / process_codeflag_compressed / process_string_compressed / '
                  'process_new_refval_compressed / process_constant_compressed / _next_compressed_values_and_status_from_all_subsets',
                  'encoder.nbits_for_uint (E1 on every path; E2 lemma N1 from the AST)', 'coder.CoderState.minmax',
                  'decoder.Decoder.process_numeric_compressed / process_codeflag_compressed / process_string_compressed / process_new_refval_compressed',
                  'the uncompressed counterparts of all of these, Encoder/Decoder.process_template_data'],
    'bounds': ['columns (small-scope core): every column of 2..3 (4 thorough) subsets over {missing, 0..2^w-2} for field widths w = 1,2,3,4 '
               '(031031, 002001, 001004, 020011), entries solver integers / missing flags; widths 7 and 10 with entries within base..base+3, base a solver integer',
               'transparency: compressed program families of vlib/families.py, 2 subsets (3 in thorough); the compressed source stream has '
               'solver bits for minimum, 6-bit width and differences, difference widths 0..2 for programs of <= 2 columns and 0..1 otherwise (quick) / 0..3 (thorough); strings 1..2 bytes over {00,41,FF}',
               'any legal width: decoder vs reference with every difference width 0..5 (quick) / 0..8 (thorough) on single columns of 1-, 3-, 4- and 12-bit fields',
               'E2 N1: nbits_for_uint(x) is the least width whose all-ones value exceeds x, for every x of up to 64 bits'],
    'assumptions': ['entries whose raw value equals the field\'s all-ones pattern are "missing" (C03\'s stated exception) and are excluded from the transparency runs',
                    'compressed data requires identical replication factors / bitmaps / new reference values in all subsets (FM-94); other streams are malformed'],
    'outside': ['columns wider than the bounds with unrelated entries (nbits_for_uint works on the binary string of the range: the harness '
                'enumerates the range, so it is kept small)', 'dozens of subsets'],
    'trusted_base': ['CrossHair 0.0.110 / z3 5.1', 'bitstring model', 'FM-94 reference (corpus-validated)', 'E2 translator for nbits_for_uint'],
}

MANIFEST = {
    'uses_e2': True,
    'level_text': ('Bounded symbolic model checking: the real compressed and uncompressed encoder and decoder paths run on columns whose '
                   'entries (equal / distinct / missing) are solver variables and on compressed streams whose minimum, difference width and '
                   'differences are solver bits; on every path the column read back by the real decoder and by the independent reader, the '
                   'labels and the links must be identical whichever way the data is stored. E2: nbits_for_uint is the least admissible width (z3).'),
    'level_note': 'Trusted: CrossHair/z3, bitstring model, FM-94 reference; the width lemma is generated from the AST of nbits_for_uint.',
}


def jobs(tier, seed):
    J = []
    thorough = tier == 'thorough'
    J.append(Job('E2:N1-least-width', module='vlib.e2', harness='N1', engine='E2-smt', timeout=300))
    for eid, w in ((31031, 1), (2001, 2), (1004, 3), (20011, 4)):
        for n in ((2, 3, 4) if thorough else (2, 3)):
            if n == 4 and w == 4 and not thorough:
                continue
            J.append(Job('col:w%d:n%d' % (w, n), 'harness.c05', 'h_column', {'element': eid, 'n_subsets': n},
                         timeout=6000 if thorough else 900, witnesses=['column'], core=not (n == 4)))
    for eid, w in ((1001, 7), (1002, 10)):
        J.append(Job('col:w%d:n3:spread' % w, 'harness.c05', 'h_column', {'element': eid, 'n_subsets': 3, 'spread': 3 if not thorough else 6},
                     timeout=3000 if thorough else 900, witnesses=['column']))
    for f in families.COMPRESSED_FAMILIES:
        st = 'alphabet' if 'str' in f['name'] else 'opaque'
        J.append(Job('transparent:n2:' + f['name'], 'harness.c05', 'h_transparent',
                     {'family': f['name'], 'n_subsets': 2, 'max_diff_width': 3 if thorough else (2 if len(f['ids']) <= 2 and f['name'] != 'c-onebit' else 1),
                      'max_factor': 1, 'strings': st},
                     timeout=3000 if thorough else 900, witnesses=['transparent']))
        if thorough:
            J.append(Job('transparent:n3:' + f['name'], 'harness.c05', 'h_transparent',
                         {'family': f['name'], 'n_subsets': 3, 'max_diff_width': 2, 'max_factor': 1, 'strings': st},
                         timeout=6000, witnesses=['transparent'], core=False))
    for name, ids in (('code4', [20011]), ('num3', [1004]), ('scaled12', [12001]), ('onebit', [31031])):
        J.append(Job('anywidth:' + name, 'harness.c01', 'h_decode', {'ids': ids, 'name': name, 'compressed': True, 'n_subsets': 3 if thorough else 2,
                                                                    'max_diff_width': 8 if thorough else 5},
                     timeout=3000 if thorough else 900, witnesses=['decoded']))
    J.append(Job('canary:width-rule', 'harness.c05', 'h_column', {'element': 1004, 'n_subsets': 2}, timeout=600, max_cex=1,
                 mutate="pybufrkit.encoder::            nbits_diff = nbits_for_uint(max_value - min_value + 1)-->>            nbits_diff = nbits_for_uint(max_value - min_value - 1)"))
    J.append(Job('canary:missing-next-to-equal', 'harness.c05', 'h_transparent', {'family': 'c-num', 'n_subsets': 2, 'max_diff_width': 2}, timeout=600, max_cex=1,
                 mutate="pybufrkit.encoder::        all_equal = values.count(values[0]) == state.n_subsets-->>        all_equal = (lambda ps: all(v == ps[0] for v in ps))([v for v in values if v is not None])"))
    return J
