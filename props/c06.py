from vlib.driver import Job
from vlib import families

META = {
    'level': 'model_checking',
    'files': ['pybufrkit/coder.py', 'pybufrkit/decoder.py', 'pybufrkit/encoder.py', 'pybufrkit/templatedata.py', 'pybufrkit/renderer.py'],
    'functions': ['decoder.Decoder.process_template_data (per-subset loop)', 'encoder.Encoder.process_template_data (per-subset loop)',
                  'coder.CoderState.switch_subset_context / build_bitmapped_descriptors / mark_back_reference_boundary / add_bitmap_link',
                  'coder.Coder.process_* (template walk)', 'templatedata.TemplateData.wire*', 'renderer.NestedJsonRenderer._render_template_data*'],
    'bounds': ['2 subsets (3 in thorough for the small families) in one stream of solver bits; each subset has its own replication factors (0..1 quick, '
               '0..2 thorough) and bitmap bits (all symbolic, so they differ between subsets on most paths)',
               'program families of vlib/families.py incl. templates ending inside an operator construct (open-201/204/207), 203 definitions, '
               'delayed replication before a bitmap, bitmap reuse 236000/237000, 235000 and 237255',
               'value fields assumed not missing (structure is the subject); permutation invariance is a corollary of independence'],
    'assumptions': ['streams the FM-94 reference classifies as malformed are outside the property'],
    'outside': ['compressed data (one shared template walk by definition)'],
    'trusted_base': ['CrossHair 0.0.110 / z3 5.1', 'bitstring model (conformance-swept)'],
}

MANIFEST = {
    'level_text': ('Bounded symbolic model checking by self-composition: the real decoder/encoder process two subsets from one symbolic stream and '
                   'each subset alone from a fresh state; values, labels, links, nested rendering and written bits must agree on every path '
                   '(solver-decided), and the joint result must equal the per-subset FM-94 reference.'),
    'level_note': 'Trusted: CrossHair/z3, bitstring model (conformance-swept; counterexamples replayed on the real library), FM-94 reference for bounding and the second oracle.',
}

RESET = ('pybufrkit.coder::        self.nbits_offset = 0\n        self.scale_offset = 0\n        self.nbits_of_new_refval = 0\n        self.nbits_of_associated = []'
         '-->>        self.scale_offset = 0\n        self.nbits_of_new_refval = 0\n        self.nbits_of_associated = []')
RESET_BACKREF = ('pybufrkit.coder::        self.back_reference_boundary = 0\n        self.back_referenced_descriptors = None\n        self.decoded_descriptors = self.decoded_descriptors_all_subsets[idx_subset]'
                 '-->>        self.back_reference_boundary = 0\n        self.decoded_descriptors = self.decoded_descriptors_all_subsets[idx_subset]')


def jobs(tier, seed):
    J = []
    thorough = tier == 'thorough'
    mf = 2 if thorough else 1
    for f in families.VALUE_FAMILIES + families.BITMAP_FAMILIES:
        J.append(Job('s2:' + f['name'], 'harness.c06', 'h_independent', {'family': f['name'], 'max_factor': min(mf, f.get('max_factor', mf))},
                     timeout=3000 if thorough else 600, witnesses=['decoded', 'encoded']))
    for name in ('plain', 'open-201', 'open-204', 'open-207', 'delayed', 'op203-scaled'):
        J.append(Job('s2-missing:' + name, 'harness.c06', 'h_independent', {'family': name, 'max_factor': 1, 'no_missing': False},
                     timeout=3000 if thorough else 600, witnesses=['decoded'], core=False))
    if thorough:
        for name in ('open-201', 'open-204', 'open-207', 'delayed', 'qa222', 'op203-scaled'):
            J.append(Job('s3:' + name, 'harness.c06', 'h_independent', {'family': name, 'n_subsets': 3, 'max_factor': 1, 'nbits': 2048},
                         timeout=3000, witnesses=['decoded'], core=False))
        for name in ('open-201', 'qa222-delayed-bitmap', 'reuse-237'):
            J.append(Job('s2-compiled:' + name, 'harness.c06', 'h_independent', {'family': name, 'max_factor': 1, 'compiled': 10},
                         timeout=3000, witnesses=['decoded'], core=False))
    J.append(Job('canary:no-201-reset', 'harness.c06', 'h_independent', {'family': 'open-201'}, timeout=300, mutate=RESET, max_cex=1))
    J.append(Job('canary:no-backref-reset', 'harness.c06', 'h_independent', {'family': 'qa222-delayed-bitmap', 'max_factor': 2}, timeout=600,
                 mutate=RESET_BACKREF, max_cex=1))
    return J
