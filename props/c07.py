from vlib.driver import Job
from vlib import families

META = {
    'level': 'model_checking',
    'files': ['pybufrkit/coder.py', 'pybufrkit/decoder.py', 'pybufrkit/encoder.py', 'pybufrkit/templatedata.py', 'pybufrkit/descriptors.py',
              'pybufrkit/renderer.py'],
    'functions': ['encoder.Encoder.define_bitmap / process_template_data (bitmap families, 2 subsets)', 'coder.Coder.process_bitmap_definition / process_bitmapped_descriptor / process_marker_operator_descriptor / process_associated_field',
                  'coder.CoderState.build_bitmapped_descriptors / add_bitmap_link / recall_bitmap / cancel_bitmap / cancel_all_back_references',
                  'decoder.Decoder.define_bitmap', 'templatedata.TemplateData.wire / wire_element_descriptor / wire_operator_descriptor / wire_bitmap_attribute',
                  'renderer.NestedJsonRenderer._render_template_data_*', 'descriptors.MarkerDescriptor.from_element_descriptor'],
    'bounds': ['programs: bitmap and attribute families of vlib/families.py (222000 quality info, 223255/224255/225255/232255 markers, 236000/237000/'
               '237255/235000, 204YYY incl. nested, bitmaps of fixed and delayed length 0..4, attribute counts by delayed replication 0..2(4))',
               'every bitmap bit, bitmap length and attribute count is a solver variable; values are assumed not missing',
               'uncompressed 1 subset (2 in thorough), compressed 2 subsets with difference width <= 1'],
    'assumptions': ['streams with more attribute values than zero bits, or a bitmap longer than the preceding elements, are malformed and excluded',
                    'FM-94 reference ownership relation (vlib/fm94.py), validated on the corpus for values/links'],
    'outside': ['204YYY combined with marker operators', '237000 after a non-reuse bitmap, 237000 after 237255 (FM-94 leaves these undefined)'],
    'trusted_base': ['CrossHair 0.0.110 / z3 5.1', 'bitstring model', 'FM-94 reference'],
}

MANIFEST = {
    'level_text': ('Bounded symbolic model checking: the real bitmap state machine, back-reference construction, marker processing, wiring and '
                   'nested rendering run on streams whose bitmap bits, bitmap lengths and attribute counts are solver variables; on every path the '
                   'links, attribute nodes, meaning nodes and the rendering must match the FM-94 ownership relation of the reference.'),
    'level_note': 'Trusted: CrossHair/z3, bitstring model, FM-94 reference (corpus-validated).',
}


def jobs(tier, seed):
    J = []
    thorough = tier == 'thorough'
    fams = families.BITMAP_FAMILIES + families.ATTRIBUTE_FAMILIES + [families.by_name(n) for n in ('op204', 'op204-nested', 'op204-rep', 'open-204')]
    for f in fams:
        mf = f.get('max_factor', 2)
        J.append(Job('u1:' + f['name'], 'harness.c07', 'h_links', {'family': f['name'], 'max_factor': mf if thorough else min(mf, 3)},
                     timeout=3000 if thorough else 600, witnesses=['linked']))
    for name in ('c-222', 'c-224', 'c-225', 'c-204'):
        J.append(Job('c2:' + name, 'harness.c07', 'h_links', {'family': name, 'compressed': True, 'n_subsets': 2, 'max_factor': 1},
                     timeout=1200, witnesses=['linked']))
    # the encoder side: bitmaps that differ between the subsets of an uncompressed message; the links of the encoder's own
    # template data and the written fields (width / reference of the designated owner) against the FM-94 reference
    for name in ('qa222', 'stat224', 'diff225', 'reuse-237') + (('sub223', 'rep232', 'two-bitmaps', 'cancel-235') if thorough else ()):
        J.append(Job('enc:u2:' + name, 'harness.c02', 'h_encode', {'family': name, 'n_subsets': 2, 'max_factor': 1, 'no_missing': True, 'nbits': 1024},
                     timeout=3000 if thorough else 900, witnesses=['encoded']))
    J.append(Job('enc:c2:c-224', 'harness.c02', 'h_encode', {'family': 'c-224', 'n_subsets': 2, 'compressed': True, 'max_factor': 1, 'no_missing': True,
                                                         'max_diff_width': 1}, timeout=900, witnesses=['encoded']))
    if thorough:
        for name in ('qa222', 'stat224', 'reuse-237'):
            J.append(Job('c2:' + name, 'harness.c07', 'h_links', {'family': name, 'compressed': True, 'n_subsets': 2, 'max_factor': 1,
                                                                 'max_diff_width': 1}, timeout=3000, witnesses=['linked'], core=False))
        for f in fams[:8]:
            J.append(Job('u2:' + f['name'], 'harness.c07', 'h_links', {'family': f['name'], 'n_subsets': 2, 'max_factor': 1, 'nbits': 2048},
                         timeout=3000, witnesses=['linked'], core=False))
            J.append(Job('u1-compiled:' + f['name'], 'harness.c07', 'h_links', {'family': f['name'], 'compiled': 10}, timeout=3000, core=False))
    J.append(Job('canary:zero-bit', 'harness.c07', 'h_links', {'family': 'qa222'}, timeout=300, max_cex=1,
                 mutate='pybufrkit.coder::) if bit == 0\n-->>) if bit == 1\n'))
    J.append(Job('canary:wire-owner', 'harness.c07', 'h_links', {'family': 'stat224'}, timeout=300, max_cex=1,
                 mutate='pybufrkit.templatedata::        self.index_to_node[self.bitmap_links[attr_node.index]].add_attribute(attr_node)-->>        self.index_to_node[self.bitmap_links[attr_node.index] - 1].add_attribute(attr_node)'))
    J.append(Job('canary:225-width', 'harness.c07', 'h_links', {'family': 'diff225'}, timeout=300, max_cex=1,
                 mutate='pybufrkit.coder::nbits=bitmapped_descriptor.nbits + 1,-->>nbits=bitmapped_descriptor.nbits,'))
    return J
