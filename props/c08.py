import random

from vlib.driver import Job
from vlib import families
from harness.c08 import EXTRA

META = {
    'level': 'model_checking',
    'files': ['pybufrkit/templatecompiler.py', 'pybufrkit/coder.py', 'pybufrkit/decoder.py', 'pybufrkit/encoder.py', 'pybufrkit/descriptors.py'],
    'functions': ['templatecompiler.TemplateCompiler.* / CompilerState.*', 'templatecompiler.CompiledTemplateManager.get_or_compile',
                  'templatecompiler.process_compiled_template / process_statements',
                  'templatecompiler.*.to_dict, loads_compiled_template, load_loop_from_dict, load_method_call_from_dict',
                  'decoder.Decoder.process_template_data / encoder.Encoder.process_template_data (interpreted and compiled) with everything below'],
    'bounds': ['programs: every family of vlib/families.py (value, bitmap, attribute, compressed families) plus operator-in-force-at-a-marker '
               'templates (harness/c08.py EXTRA), each decoded (fresh / cached / re-loaded compiled template) and encoded; a seeded sample of '
               '8 (quick) / 120 (thorough) Table D sequences of master table 33 with structure bits symbolic',
               'data: every payload bit a solver variable (values may be 0 / max / missing), delayed factors 0..2 (3 thorough), bitmap bits free, '
               '1 subset (2 for a subset of families), compressed with difference width <= 1',
               'same error: streams cut at a solver-chosen bit position (decode) and one value replaced by an arbitrary integer (encode)',
               'cache: cache sizes 0,1,2,3 x every message order of length <= 3 over a pool of 3 templates, each message with its own solver bits'],
    'assumptions': ['templates whose operators are opened and closed within one replication scope (precondition of the property)',
                    'the reference walk is used only to bound factors / widths (no oracle role here: the oracle is the interpreted run)'],
    'outside': ['Table D sequences of the other bundled versions and local tables (thorough covers a sample of master table 33 only)',
                'templates using 241/242/243 and delayed repetition (NotImplementedError in both paths)'],
    'trusted_base': ['CrossHair 0.0.110 / z3 5.1', 'bitstring model (conformance-swept)'],
}

MANIFEST = {
    'level_text': ('Bounded symbolic model checking by self-composition: the interpreted and the compiled coder (fresh from the manager, from a warm '
                   'cache, re-loaded from its JSON form) process the same symbolic stream / value list; values, labels, links, positions, written '
                   'fields or the error class must agree on every path; cache contents are inspected after every message of every order.'),
    'level_note': 'Trusted: CrossHair/z3, bitstring model. The oracle is the interpreted run of the real code.',
}


def _tabled_sample(k, seed):
    import json, os
    from vlib.fm94 import TABLES_ROOT
    D = json.load(open(os.path.join(TABLES_ROOT, '0', '0_0', '33', 'TableD.json')))
    B = json.load(open(os.path.join(TABLES_ROOT, '0', '0_0', '33', 'TableB.json')))

    def size(i, depth=0):
        if depth > 6:
            return 999
        n = 0
        for m in D[i][1]:
            if m.startswith('3'):
                if m not in D:
                    return 999
                n += size(m, depth + 1)
            elif m.startswith('0'):
                if m not in B:
                    return 999
                n += 1
            elif m.startswith('1') and int(m[3:]) > 3:
                n += 3 * int(m[3:])
            elif m[:3] in ('241', '242', '243') or m in ('031011', '031012'):
                return 999
            else:
                n += 1
        return n
    small = sorted(i for i in D if size(i) <= 14)
    rnd = random.Random(1000 + seed)
    rnd.shuffle(small)
    return [int(i) for i in small[:k]]


def jobs(tier, seed):
    J = []
    thorough = tier == 'thorough'
    mf = 3 if thorough else 2
    names = [f['name'] for f in families.VALUE_FAMILIES + families.BITMAP_FAMILIES + families.ATTRIBUTE_FAMILIES] + sorted(EXTRA)
    modes = ['fresh', 'cached', 'reloaded']
    for k, name in enumerate(names):
        # quick: each family is decoded in one mode (rotating; operator-at-marker templates always also re-loaded) and every
        # third family is encoded; thorough: all modes, all families
        for mode in (modes if thorough else [modes[k % 3]] + (['reloaded'] if name in EXTRA and modes[k % 3] != 'reloaded' else [])):
            J.append(Job('dec:%s:%s' % (mode, name), 'harness.c08', 'h_decode_equiv', {'family': name, 'mode': mode, 'max_factor': mf},
                         timeout=3000 if thorough else 600, witnesses=['ok']))
        if thorough or k % 3 == 0 or name in EXTRA:
            J.append(Job('enc:%s:%s' % (modes[(k + 1) % 3], name), 'harness.c08', 'h_encode_equiv',
                         {'family': name, 'mode': modes[(k + 1) % 3], 'max_factor': mf}, timeout=3000 if thorough else 600, witnesses=['ok']))
    for k, f in enumerate(families.COMPRESSED_FAMILIES):
        if thorough or k % 2 == 0 or f['name'] in ('c-204', 'c-206'):
            J.append(Job('dec:c2:' + f['name'], 'harness.c08', 'h_decode_equiv',
                         {'family': f['name'], 'compressed': True, 'n_subsets': 2, 'max_factor': 1, 'mode': 'reloaded'}, timeout=900, witnesses=['ok']))
        if thorough or f['name'] in ('c-num', 'c-rep', 'c-203', 'c-224', 'c-str208'):
            J.append(Job('enc:c2:' + f['name'], 'harness.c08', 'h_encode_equiv',
                         {'family': f['name'], 'compressed': True, 'n_subsets': 2, 'max_factor': 1, 'mode': 'fresh'}, timeout=900, witnesses=['ok']))
    for name in (('delayed', 'qa222', 'reuse-237') if not thorough else names[:24]):
        J.append(Job('dec:u2:' + name, 'harness.c08', 'h_decode_equiv', {'family': name, 'n_subsets': 2, 'max_factor': 1, 'mode': 'cached',
                                                                        'nbits': 2048, 'no_missing': True}, timeout=1200, witnesses=['ok'], core=not thorough))
    for name in ('plain', 'op204', 'sub223') + (('delayed-short', 'strings', 'op203', 'stat224', 'op207') if thorough else ()):
        J.append(Job('dec:truncated:' + name, 'harness.c08', 'h_decode_equiv', {'family': name, 'truncate': True, 'max_factor': 1, 'mode': 'fresh',
                                                                                'no_missing': True}, timeout=1200, witnesses=['ok', 'both-fail']))
        J.append(Job('enc:perturbed:' + name, 'harness.c08', 'h_encode_equiv', {'family': name, 'perturb': True, 'max_factor': 1, 'mode': 'reloaded',
                                                                                'no_missing': True}, timeout=1200, witnesses=['ok', 'both-fail']))
    for sid in _tabled_sample(120 if thorough else 8, seed):
        J.append(Job('dec:tableD:%06d' % sid, 'harness.c08', 'h_decode_equiv', {'ids': [sid], 'mode': 'reloaded', 'max_factor': 1, 'no_missing': True,
                                                                                'nbits': 4096}, timeout=900, witnesses=['ok'], core=False))
    for c in (0, 1, 2, 3):
        J.append(Job('cache:%d' % c, 'harness.c08', 'h_cache', {'cache_max': c, 'max_len': 3}, timeout=1800 if thorough else 900, witnesses=['cache']))
    J.append(Job('canary:loop-count', 'harness.c08', 'h_decode_equiv', {'family': 'fixedrep', 'mode': 'fresh'}, timeout=300, max_cex=1,
                 mutate='pybufrkit.templatecompiler::        with state.new_loop(descriptor.n_repeats):-->>        with state.new_loop(max(1, descriptor.n_repeats - 1)):'))
    J.append(Job('canary:marker-scale-offset', 'harness.c08', 'h_decode_equiv', {'family': 'marker-under-202', 'mode': 'fresh'}, timeout=300, max_cex=1,
                 mutate="pybufrkit.templatecompiler::            'scale_offset': state.scale_offset,-->>            'scale_offset': 0,"))
    J.append(Job('canary:cache-key', 'harness.c08', 'h_cache', {'cache_max': 2, 'max_len': 2}, timeout=600, max_cex=1,
                 mutate="pybufrkit.templatecompiler::            tuple(template.original_descriptor_ids),\n            table_group.key-->>            len(template.original_descriptor_ids),\n            table_group.key"))
    return J
