from vlib.driver import Job
from vlib import families
from harness.c09 import EXTRA

META = {
    'level': 'model_checking',
    'files': ['pybufrkit/renderer.py', 'pybufrkit/utils.py', 'pybufrkit/templatedata.py', 'pybufrkit/decoder.py', 'pybufrkit/encoder.py'],
    'functions': ['renderer.FlatTextRenderer / NestedTextRenderer / FlatJsonRenderer / NestedJsonRenderer (render of a whole message)',
                  'utils.flat_text_to_flat_json / nested_text_to_flat_json / nested_json_to_flat_json and their helpers',
                  'templatedata.TemplateData.wire*', 'decoder.Decoder.process, encoder.Encoder.process (re-encoding of the flat form)'],
    'bounds': ['message shapes: every program family of vlib/families.py (value, bitmap, attribute) and harness/c09.py EXTRA (221 data not present, '
               'zero-count replications, attributes on a replication factor, chained attributes, flag tables, associated field on a string); '
               'delayed factors 0..2, bitmap bits, bitmap lengths and attribute counts are solver variables, every shape within the bound is explored',
               'content: pinned by solver constraints to a rotating menu (0, missing, 1, max-1, 2^(n-1), 0101.. pattern; 11 tricky strings), '
               '3 rotations per shape',
               'strings: one character field of 1..3 (4 thorough) bytes, every byte solver-chosen from { \' " space b \\ A e-acute # }, via 205YYY and via a table element',
               '1 subset (2 subsets for a subset of families)'],
    'assumptions': ['content values are concrete per path (the text converters use repr / ast.literal_eval, C level): the solver enumerates shapes '
                    'and produces the data section of each; it does not reason about arbitrary field contents here',
                    'uncompressed data (the renderers see the same TemplateData for compressed data)'],
    'outside': ['json.dumps / json.loads text of the JSON renderings', 'commands.command_encode file I/O', 'compressed messages'],
    'trusted_base': ['CrossHair 0.0.110 / z3 5.1', 'bitstring model', 'FM-94 reference walk (shape enumeration only)', 'vlib/msgbuild.py'],
}

MANIFEST = {
    'level_text': ('Bounded, solver-driven shape exploration: a symbolic stream is walked by the FM-94 reference so that every combination of '
                   'replication factors, bitmap bits and attribute counts within the bound becomes one path; the solver produces the data section '
                   'of each shape (content pinned to a tricky-value menu) and the real decoder, wiring, four renderers, three converters and the '
                   'encoder run on the assembled message; the conversions must reproduce the flat JSON, the re-encoded bytes must carry the same flat JSON again, and '
                   'the hierarchical view must hold every flat index exactly once in flat order.'),
    'level_note': 'Trusted: CrossHair/z3 (path enumeration and model construction), bitstring model, the independent message builder.',
    'technique': 'CrossHair/z3 path-exhaustive enumeration of message shapes over a symbolic stream; the real rendering/conversion code is executed on the solver-built message of every shape',
}


def jobs(tier, seed):
    J = []
    thorough = tier == 'thorough'
    names = [f['name'] for f in families.VALUE_FAMILIES + families.BITMAP_FAMILIES + families.ATTRIBUTE_FAMILIES] + sorted(EXTRA)
    for name in names:
        heavy = name in ('bm-redefine', 'bm-chain-4', 'bm-nested-rep')   # many bitmap bits: one content phase in quick
        J.append(Job('shapes:' + name, 'harness.c09', 'h_shapes', {'family': name, 'phases': 6 if thorough else (1 if heavy else 3),
                                                                   'max_factor': 3 if thorough else (1 if heavy else 2)},
                     timeout=3000 if thorough else 600, witnesses=['shape']))
    # incl. templates that leave an operator in force at the end of a subset (the next subset must be wired from a clean state)
    for name in ('delayed', 'qa222', 'op204', 'np221', 'zero-rep', 'attr-on-factor', 'open-221', 'open-204', 'open-222') + (tuple(names[:20]) if thorough else ()):
        J.append(Job('shapes:2subsets:' + name, 'harness.c09', 'h_shapes', {'family': name, 'n_subsets': 2, 'phases': 2 if thorough else 1, 'max_factor': 1, 'nbits': 4096},
                     timeout=1200, witnesses=['shape'], core=False))
    for y in ((1, 2, 3, 4) if thorough else (1, 2, 3)):
        J.append(Job('strings:205:%d' % y, 'harness.c09', 'h_strings', {'nbytes': y}, timeout=3000 if thorough else 900, witnesses=['string']))
    J.append(Job('strings:000011', 'harness.c09', 'h_strings', {'nbytes': 2, 'op205': False}, timeout=600, witnesses=['string']))
    J.append(Job('canary:assoc-order', 'harness.c09', 'h_shapes', {'family': 'op204', 'phases': 1}, timeout=300, max_cex=1,
                 mutate="pybufrkit.utils::            data_all_subsets[-1].insert(-1, value)-->>            data_all_subsets[-1].append(value)"))
    J.append(Job('canary:string-bound', 'harness.c09', 'h_strings', {'nbytes': 3}, timeout=600, max_cex=1,
                 mutate="pybufrkit.utils::            idxval = line.rfind(string_left_bound, 0, len(line) - 1)-->>            idxval = line.rfind(string_left_bound)"))
    J.append(Job('canary:virtual-attr', 'harness.c09', 'h_shapes', {'family': 'qa222', 'phases': 1}, timeout=300, max_cex=1,
                 mutate="pybufrkit.utils::            if 'virtual' not in attr:-->>            if True:"))
    return J
