from vlib.driver import Job
from harness.c10 import TEMPLATES

META = {
    'level': 'model_checking',
    'files': ['pybufrkit/bufr.py', 'pybufrkit/encoder.py', 'pybufrkit/decoder.py', 'pybufrkit/coder.py'],
    'functions': ['bufr.BufrMessage.subset', 'encoder.Encoder.process (whole message, compressed re-packing of the reduced column set)',
                  'decoder.Decoder.process (whole message)', 'bufr.SectionConfigurer.configure_section_with_values'],
    'bounds': ['source messages: edition 4, 3 subsets, templates of harness/c10.py TEMPLATES (plain, delayed replication, character, '
               'compressed 1 and 2 columns, compressed character); every data bit a solver variable (compressed: difference widths 0..1 (2 thorough)); '
               'originating centre, data category and year solver integers',
               'index collections: length 1..3 (quick: 1..2 except for the plain template), every index a solver integer in -1..3 (all orders, repeats, single, full, first/last, out of range by one on both sides)'],
    'assumptions': ['values are compared up to FM-94\'s identification of a field\'s all-ones pattern with missing (as the property states)',
                    'Quot/FInt abstraction of scaled values (lemma L1 of C03)'],
    'outside': ['command_subset file I/O', 'editions 2/3 and section 2 (C04 covers framing)', 'more than 3 source subsets'],
    'trusted_base': ['CrossHair 0.0.110 / z3 5.1', 'bitstring model', 'FM-94 reference (values of the source subsets)', 'vlib/msgbuild.py'],
}

MANIFEST = {
    'level_text': ('Bounded symbolic model checking of the whole pipeline decode -> subset -> encode -> decode on messages whose data bits, '
                   'identification fields and subset indices are solver variables; every index collection within the bound (order, repeats, '
                   'out of range) is explored and on each path the new message must carry exactly the values of the distinct selected '
                   'indices in increasing order, with unchanged template / identification / flags and an unmodified source object.'),
    'level_note': 'Trusted: CrossHair/z3, bitstring model, FM-94 reference, independent message builder.',
}


def jobs(tier, seed):
    J = []
    thorough = tier == 'thorough'
    for name in TEMPLATES:
        comp = name.startswith('c-')
        J.append(Job('subset:' + name, 'harness.c10', 'h_subset',
                     {'template': name, 'max_indices': 3 if (thorough or name == 'u-plain') else 2, 'no_missing': not thorough and name != 'c-one',
                      'max_diff_width': 2 if thorough else 1},
                     timeout=6000 if thorough else 900, witnesses=['refused', 'subset-1', 'subset-2']))
    # more subsets than any small-integer shortcut survives (e.g. the iteration order of a set of indices): 9 / 10 subsets
    J.append(Job('subset:many:u-plain', 'harness.c10', 'h_subset', {'template': 'u-plain', 'n_subsets': 10, 'nbits': 160, 'max_indices': 3 if thorough else 2,
                                                                   'no_missing': True}, timeout=7000 if thorough else 1500, witnesses=['refused', 'subset-2']))
    if thorough:
      J.append(Job('subset:many:c-one', 'harness.c10', 'h_subset', {'template': 'c-one', 'n_subsets': 9, 'nbits': 64, 'max_indices': 2, 'no_missing': True,
                                                                 'max_diff_width': 2}, timeout=7000 if thorough else 1500, witnesses=['refused', 'subset-2'],
                 core=False))
    J.append(Job('canary:repeated-index', 'harness.c10', 'h_subset', {'template': 'u-plain', 'max_indices': 2, 'no_missing': True}, timeout=600,
                 max_cex=1, mutate='pybufrkit.bufr::len(set(subset_indices)) if parameter.name-->>len(subset_indices) if parameter.name'))
    J.append(Job('canary:upper-bound', 'harness.c10', 'h_subset', {'template': 'u-plain', 'max_indices': 1, 'no_missing': True}, timeout=600,
                 max_cex=1, mutate='pybufrkit.bufr::        if max(subset_indices) >= self.n_subsets.value:-->>        if max(subset_indices) > self.n_subsets.value:'))
    return J
