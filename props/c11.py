from vlib.driver import Job

META = {
    'level': 'model_checking',
    'files': ['pybufrkit/decoder.py', 'pybufrkit/script.py', 'pybufrkit/mdquery.py', 'pybufrkit/query.py', 'pybufrkit/bufr.py'],
    'functions': ['decoder.generate_bufr_message (full, info_only, filter_expr)', 'decoder.Decoder.process (start_signature=None, info_only)',
                  'script.ScriptRunner.__init__ / run / prepare_variables (mode eval)', 'script.process_embedded_query_expr',
                  'query.BufrMessageQuerent.query', 'mdquery.MetadataExprParser.parse / MetadataQuerent.query'],
    'bounds': ['streams of 0..2 (3 thorough) messages from the pool of vlib/streams.py (edition 4 with a 4-byte character payload, edition 3 with '
               'section 2 and 2 subsets, edition 4 compressed, edition 2), in the orders listed in the evidence',
               'separators before, between and after the messages: length solver-chosen from {0,1,4} (thorough {0,1,3,4,5}), every byte a solver '
               'variable, constrained only not to contain BUFR (partial signatures BUF, B, 7777 etc. are therefore included)',
               'every data bit of every message a solver variable (the character payload may spell BUFR or 7777); data_category a solver integer 0..255 except 11',
               'filters: 4 expressions over data_category, edition, is_compressed, %3.n_subsets; full and info-only scanning'],
    'assumptions': ['messages of data category 11 (table definitions, handled specially by the scanner) are C20\'s subject and excluded here'],
    'outside': ['command_split file I/O', 'separators longer than 5 bytes', 'filters over data values'],
    'trusted_base': ['CrossHair 0.0.110 / z3 5.1', 'bitstring model', 'vlib/msgbuild.py', 'FM-94 reference for the data of the delivered messages'],
}

MANIFEST = {
    'level_text': ('Bounded symbolic model checking: the real generate_bufr_message scans a stream object whose separator bytes, payload bits and '
                   'data categories are solver variables (find / slicing / equality on it are decided by z3); on every path exactly the expected '
                   'messages must be delivered, in order, each with exactly its own bytes and FM-94 values, with and without a metadata filter, '
                   'full and info-only.'),
    'level_note': 'Trusted: CrossHair/z3, bitstring model and the SymBytes stream object (vlib/symbytes.py), independent message builder.',
}


def jobs(tier, seed):
    J = []
    thorough = tier == 'thorough'
    seps = [0, 1, 3, 4, 5] if thorough else [0, 1, 4]
    orders = [[], ['A'], ['A', 'B'], ['C', 'A'], ['D', 'C']] + ([['B', 'D', 'A'], ['A', 'A', 'C']] if thorough else [])
    for names in orders:
        for info in (False, True):
            J.append(Job('split:%s:%s' % ('info' if info else 'full', '+'.join(names) or 'empty'), 'harness.c11', 'h_split',
                         {'msgs': names, 'info_only': info, 'sep_lengths': seps}, timeout=3000 if thorough else 900,
                         witnesses=['split-%d' % len(names)]))
    for flt in range(4):
        for names, info in ((['C', 'A'], False), (['B', 'C'], True)) + (((['A', 'B', 'C'], False),) if thorough else ()):
            J.append(Job('filter%d:%s:%s' % (flt, 'info' if info else 'full', '+'.join(names)), 'harness.c11', 'h_split',
                         {'msgs': names, 'info_only': info, 'filter': flt, 'sep_lengths': [0, 4] if not thorough else [0, 1, 4]},
                         timeout=3000 if thorough else 900))
    J.append(Job('lengths:special-octets', 'harness.c11', 'h_lengths', {'n_msgs': 2}, timeout=1800, witnesses=['split']))
    J.append(Job('canary:info-advance', 'harness.c11', 'h_split', {'msgs': ['A', 'B'], 'info_only': True, 'sep_lengths': [0, 4]}, timeout=600, max_cex=1,
                 mutate='pybufrkit.decoder::                bufr_message.serialized_bytes = s[idx_start: idx_start + bufr_message.length.value]-->>                bufr_message.serialized_bytes = s[idx_start: idx_start + bufr_message.length.value - 4]'))
    J.append(Job('canary:rescan-body', 'harness.c11', 'h_split', {'msgs': ['A'], 'sep_lengths': [0]}, timeout=600, max_cex=1,
                 mutate='pybufrkit.decoder::            idx_start += len(bufr_message.serialized_bytes)-->>            idx_start += 8'))
    return J
