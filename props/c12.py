from vlib.driver import Job

META = {
    'level': 'model_checking',
    'files': ['pybufrkit/decoder.py', 'pybufrkit/__init__.py', 'pybufrkit/bitops.py', 'pybufrkit/errors.py', 'pybufrkit/tables.py'],
    'functions': ['decoder.Decoder.process / process_section (every read, expected-value checks, declared-length checks)',
                  'decoder.generate_bufr_message (continue_on_error on / off, full / info-only, recovery by declared length)',
                  'bitops.BitStringBitReader._bit_stream_read (error wrapping)', 'tables lookup -> UnknownDescriptor', '__init__.main (exception ladder)'],
    'bounds': ['prefixes: each pool message of vlib/streams.py (editions 2, 3 with section 2, 4, 4 compressed; data bits solver variables) cut at '
               'EVERY octet 0..length (the cut is one solver integer; the end-of-data test of the bitstring model forks once per read), with 0..1 stray bytes after it',
               'streams: 2..3 pool messages, one solver-chosen message damaged in one solver-chosen way: stop signature = any 4 bytes != 7777; '
               'first descriptor replaced by one of 4 ids absent from the table (2 elements, 2 sequences); length of section 1 / 3 / 4 changed by '
               '-2,-1,+1,+2 octets; total length field intact; full and info-only; continue_on_error on and off',
               'main(): 6 library error classes x 6 sub-commands (solver-chosen), command bodies stubbed to raise'],
    'assumptions': ['info-only scanning reads sections 0-3 and never builds the template: damage confined to sections 4/5 or an undefined descriptor is '
                    'invisible to it by construction; the check then demands that ALL messages are delivered unchanged',
                    'a changed section length that still yields a parse ending on 7777 at the declared place is undetectable by the format; such paths are reported under the witness "undetectable"'],
    'outside': ['damage to several messages at once', 'bit-granular truncation (the real bitstring takes whole bytes)', 'damaged section 0 (start signature / edition)'],
    'trusted_base': ['CrossHair 0.0.110 / z3 5.1', 'bitstring model (end-of-data behaviour conformance-swept)', 'vlib/msgbuild.py'],
}

MANIFEST = {
    'level_text': ('Bounded symbolic fault checking: the truncation point of a message is one solver integer over all octets; in multi-message '
                   'streams the damaged message, the kind of damage and the damaging bytes / deltas are solver variables; the real decoder and '
                   'generate_bufr_message run on each path and must raise only the library error, skip exactly the damaged message under '
                   'continue-on-error and deliver every other message byte-identically and with its FM-94 values.'),
    'level_note': 'Trusted: CrossHair/z3, bitstring model, independent message builder.',
}


def jobs(tier, seed):
    J = []
    thorough = tier == 'thorough'
    for name in ('A', 'B', 'C', 'D'):
        J.append(Job('prefix:' + name, 'harness.c12', 'h_prefix', {'msg': name}, timeout=900, witnesses=['prefix-refused', 'whole']))
    orders = [['A', 'B'], ['C', 'A', 'D']] + ([['B', 'C'], ['D', 'A', 'B'], ['A', 'A']] if thorough else [])
    for names in orders:
        for info in (False, True):
            for cont in (True, False):
                J.append(Job('stream:%s:%s:%s' % ('+'.join(names), 'info' if info else 'full', 'continue' if cont else 'stop'),
                             'harness.c12', 'h_stream', {'msgs': names, 'info_only': info, 'continue_on_error': cont},
                             timeout=3000 if thorough else 900, witnesses=['isolated' if cont else 'surfaced']))
    for comp in (False, True):
        for base in ([], [1004]):
            for k in (1, 2):
                if k == 2 and comp and base and not thorough:
                    continue      # 16 000+ paths: thorough only
                J.append(Job('garbled:%s:%s:+%d' % ('compressed' if comp else 'plain', 'after-001004' if base else 'bare', k), 'harness.c12', 'h_garbled',
                             {'compressed': comp, 'base': base, 'n_extra': k, 'nbits': 48}, timeout=7000 if thorough else 1200,
                             max_cex=60, witnesses=['refused'], core=not thorough))
    J.append(Job('main:exception-ladder', 'harness.c12', 'h_main', {}, timeout=300, witnesses=['reported']))
    J.append(Job('canary:assert-instead-of-error', 'harness.c12', 'h_stream', {'msgs': ['A', 'B'], 'kinds': ['stop']}, timeout=600, max_cex=1,
                 mutate="pybufrkit.decoder::                raise PyBufrKitError('Value ({!r}) not as expected ({!r})'.format(-->>                raise AssertionError('Value ({!r}) not as expected ({!r})'.format("))
    J.append(Job('canary:recovery-step', 'harness.c12', 'h_stream', {'msgs': ['A', 'B', 'C'], 'kinds': ['descriptor']}, timeout=600, max_cex=1,
                 mutate='pybufrkit.decoder::                    idx_start += bufr_message.length.value\n-->>                    idx_start += bufr_message.length.value + 60\n'))
    J.append(Job('canary:prefix-accepted', 'harness.c12', 'h_prefix', {'msg': 'A'}, timeout=600, max_cex=1,
                 mutate="pybufrkit.decoder::            if section.end_of_message:\n                break\n\n        # The exact bytes-->>            if section.end_of_message or section_index == 5:\n                break\n\n        # The exact bytes"))
    return J
