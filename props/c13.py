from vlib.driver import Job

META = {
    'level': 'model_checking',
    'files': ['pybufrkit/tables.py', 'pybufrkit/templatecompiler.py', 'pybufrkit/decoder.py', 'pybufrkit/encoder.py', 'pybufrkit/coder.py',
              'pybufrkit/bufr.py', 'pybufrkit/templatedata.py', 'pybufrkit/dataquery.py', 'pybufrkit/renderer.py'],
    'functions': ['tables.TableGroupCache.get (eviction, keying)', 'tables.TableGroupCacheManager.get_table_group / get_table_group_by_key / invalidate',
                  'templatecompiler.CompiledTemplateManager.get_or_compile (eviction, keying)',
                  'decoder.Decoder.process, encoder.Encoder.process on shared objects', 'dataquery.DataQuerent.query, renderer.*JsonRenderer on a re-used message object'],
    'bounds': ['inductive steps: TableGroupCache.get from ANY state over 4 keys (each present or not - solver booleans) satisfying the representation '
               'invariant (entries filed under their own key, size <= limit), limit 1..3 and the real limit 50 with 49 / 50 entries; '
               'CompiledTemplateManager.get_or_compile likewise over 4 (template, table group) keys, two of which share the template and differ '
               'in table group, cache_max 0..3.  One step from an arbitrary valid state covers histories of any length',
               'end to end: message A (solver data bits) decoded fresh, then 1..2 (3 thorough) solver-chosen operations out of 6 (decode under master '
               'table 25, decode under master table 29, failing decode, query + render, encode, compiled decodes) on the same objects with the '
               'table-group limit forced to 1 (2) and compiled cache 0/1/2, then A again'],
    'assumptions': ['no table-definition message in the history (precondition of the property; C20)',
                    'table construction is stubbed in the inductive-step harness (it records its key); in the end-to-end harness table files are '
                    'loaded natively (outside tracing)'],
    'outside': ['histories longer than 3 operations in the end-to-end harness (the inductive steps cover the caches for any length)',
                'process-global extra table entries (C20)'],
    'trusted_base': ['CrossHair 0.0.110 / z3 5.1', 'bitstring model', 'vlib/msgbuild.py'],
}

MANIFEST = {
    'level_text': ('Bounded symbolic model checking. Cache behaviour is decided by one inductive step of the real cache code from an arbitrary '
                   'invariant-satisfying pre-state whose contents, limit and request are solver variables (covers histories of any length); '
                   'independence from history is checked end to end by decoding a message with solver data bits before and after every '
                   'solver-chosen operation sequence within the bound on shared decoder / encoder objects with the cache limits forced small.'),
    'level_note': 'Trusted: CrossHair/z3, bitstring model; the representation invariant of the caches is stated in harness/c13.py.',
}


def jobs(tier, seed):
    J = []
    thorough = tier == 'thorough'
    J.append(Job('step:table-cache', 'harness.c13', 'h_table_cache_step', {'keys': 4}, timeout=600, witnesses=['hit', 'miss']))
    J.append(Job('step:table-cache:real-limit-50', 'harness.c13', 'h_table_cache_step', {'keys': 3, 'real_limit': True}, timeout=600, witnesses=['hit', 'miss']))
    J.append(Job('step:compiled-cache', 'harness.c13', 'h_compiled_cache_step', {}, timeout=600, witnesses=['step']))
    for msg in ('A', 'B'):
        for compiled in (False, True):
            for cm, tl in (((1, 1), (0, 1), (2, 2)) if thorough else ((1, 1),) if compiled else ((0, 1),)):
                J.append(Job('history:%s:%s:cache%d:tables%d' % (msg, 'compiled' if compiled else 'interpreted', cm, tl), 'harness.c13', 'h_history',
                             {'msg': msg, 'compiled': compiled, 'cache_max': cm, 'table_limit': tl, 'max_ops': 3 if thorough else 2},
                             timeout=6000 if thorough else 900, witnesses=['history']))
    for compiled in (False, True):
        J.append(Job('history:assoc-widths:%s' % ('compiled' if compiled else 'interpreted'), 'harness.c13', 'h_history',
                     {'msg': 'E', 'other': 'F', 'compiled': compiled, 'cache_max': 2, 'table_limit': 2, 'max_ops': 3 if thorough else 2},
                     timeout=6000 if thorough else 900, witnesses=['history']))
    J.append(Job('canary:eviction-count', 'harness.c13', 'h_table_cache_step', {'keys': 4}, timeout=300, max_cex=1,
                 mutate='pybufrkit.tables::                for _ in range(len(self._groups) + 1 - MAXIMUM_NUMBER_OF_CACHED_TABLE_GROUPS):-->>                for _ in range(len(self._groups) - MAXIMUM_NUMBER_OF_CACHED_TABLE_GROUPS):'))
    J.append(Job('canary:compiled-key', 'harness.c13', 'h_compiled_cache_step', {}, timeout=300, max_cex=1,
                 mutate='pybufrkit.templatecompiler::            tuple(template.original_descriptor_ids),\n            table_group.key\n-->>            tuple(template.original_descriptor_ids),\n'))
    J.append(Job('canary:stale-refvals', 'harness.c13', 'h_history', {'msg': 'A', 'max_ops': 1}, timeout=600, max_cex=1,
                 mutate='pybufrkit.tables::        if table_group_key not in self._groups:-->>        if not self._groups:'))
    return J
