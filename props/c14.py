import random

from vlib.driver import Job

META = {
    'level': 'model_checking',
    'files': ['pybufrkit/tables.py', 'pybufrkit/descriptors.py', 'pybufrkit/coder.py', 'pybufrkit/utils.py', 'pybufrkit/tables'],
    'functions': ['tables._descriptors_from_ids / _descriptors_from_ids_iter', 'utils.generate_quiet', 'tables.BufrTableGroup.template_from_ids / descriptors_from_ids / lookup',
                  'tables.TableB/TableC/TableD/TableR.lookup', 'descriptors.BufrTemplate.original_descriptor_ids', 'descriptors.flat_member_ids',
                  'descriptors.ReplicationDescriptor.n_items', 'coder.Coder.process_members (unknown descriptor)', 'tables.normalize_tables_sn / get_tables_sn',
                  'tables.TableGroupCacheManager.get_table_group'],
    'bounds': ['grouping: every well-formed descriptor list of flat length 1..5 (6 thorough) derivable from 4 leaf kinds (element, sequence, operator, '
               'class-31 element) and replications 1XXYYY with Y in {0 (delayed, any of 3 factors), 1, 2}, X from 1 to whatever fits, nested to '
               'depth 3 (4 thorough); every production is a solver choice, all derivations explored',
               'unknown descriptors: 8 templates x 4 ids absent from master table 33 (2 element ids, 1 sequence id, 1 local element id), delayed factor 0..2 and all data bits solver variables',
               'table selection: master table number {0, 5}, version {13, 33, 41, 99, 5, 0}, centre {98, 7, 0}, sub-centre {0, 1}, local version {0, 1, 101, 9}, normalisation on / off - all 576 combinations'],
    'assumptions': ['lists that are not well-formed (a replication running past the end of its list, a delayed replication without a factor) are '
                    'outside the claim: the code documents a TODO there',
                    '"every sequence of every bundled Table D expands like the file" has no free variable: it is run as a concrete conformance sweep '
                    '(see concrete_conformance in the evidence), not as a solver verdict'],
    'outside': ['X up to 63 and nesting depth > 4 (program dimension bound)', 'tables_root_dir other than the bundled one'],
    'trusted_base': ['CrossHair 0.0.110 / z3 5.1', 'bitstring model (h_unknown)', 'the derivation grammar of harness/c14.py'],
}

MANIFEST = {
    'level_text': ('Bounded, solver-driven exploration of programs: descriptor lists are derived by a grammar whose productions are solver choices '
                   '(all derivations within the bound are explored) and the real template builder must return exactly the derivation tree; '
                   'undefined descriptors are placed at solver-chosen positions of templates decoded from solver bits; table selection is explored '
                   'over all combinations of a menu of present / absent versions and centres against the documented fall-back rules.'),
    'level_note': 'Trusted: CrossHair/z3 path enumeration, bitstring model. The corpus-wide Table D statement is a concrete sweep, reported separately.',
    'technique': 'CrossHair/z3 path-exhaustive exploration (solver-chosen derivations, positions and data bits) of the real template builder, decoder and table selection',
}


def _sweep_quick():
    from harness.c14 import tabled_sweep
    import os
    seed = int(os.environ.get('VERIF_SEED', '0') or 0)
    tier = os.environ.get('VERIF_TIER', 'quick')
    if tier == 'thorough':
        return tabled_sweep(None)
    rnd = random.Random(77 + seed)
    vs = set(rnd.sample(range(6, 42), 6)) | {33, 'local'}
    return tabled_sweep(vs)


CONFORMANCE = [_sweep_quick]
NEEDS_MODEL = True


def jobs(tier, seed):
    J = []
    thorough = tier == 'thorough'
    max_len = 6 if thorough else 5
    # one exploration, split into parallel jobs by the list length and (for the longest lists) the kind of the first item
    for L in range(1, max_len + 1):
        splits = [None] if L < max_len - 1 else list(range(5))
        for k0 in splits:
            fixed = {'length': L - 1}
            if k0 is not None:
                fixed['d.k0'] = k0
            wit = ['grouped-0'] if (L == 1 or (k0 is not None and k0 < 4)) else ['grouped-1']
            if L >= 3 and k0 is None:
                wit = ['grouped-0', 'grouped-1']
            J.append(Job('grouping:len=%d%s' % (L, '' if k0 is None else ',first-kind=%d' % k0), 'harness.c14', 'h_grouping',
                         {'max_len': max_len, 'max_depth': 4 if thorough else 3, 'fixed_choices': fixed},
                         timeout=7000 if thorough else 900, witnesses=wit))
    J.append(Job('unknown-descriptor', 'harness.c14', 'h_unknown', {}, timeout=900, witnesses=['refused', 'not-reached']))
    J.append(Job('table-selection', 'harness.c14', 'h_selection', {}, timeout=900, witnesses=['selected', 'selected-local']))
    J.append(Job('canary:nested-count', 'harness.c14', 'h_grouping', {'max_len': 4}, timeout=600, max_cex=1,
                 mutate='pybufrkit.tables::                descriptor.factor = b.lookup(factor_id)-->>                descriptor.factor = b.lookup(31001)'))
    J.append(Job('canary:skip-unknown', 'harness.c14', 'h_unknown', {}, timeout=600, max_cex=1,
                 mutate="pybufrkit.coder::            else:\n                raise UnknownDescriptor('Cannot process descriptor {} of type: {}'.format(\n                    member, member_type.__name__))-->>            else:\n                continue"))
    J.append(Job('canary:subcentre-fallback', 'harness.c14', 'h_selection', {}, timeout=600, max_cex=1,
                 mutate="pybufrkit.tables::            '{}_{}'.format(originating_centre, DEFAULT_ORIGINATING_SUBCENTRE),\n        ]-->>        ]"))
    return J
