from vlib.driver import Job

NEEDS_MODEL = False

META = {
    'level': 'model_checking',
    'files': ['pybufrkit/dataquery.py', 'pybufrkit/errors.py', 'docs/internals.rst'],
    'functions': ['dataquery.NodePathParser.parse / handle_left_bracket / handle_colon_and_right_bracket / handle_separator / convert_slice_element / '
                  'convert_id / create_slice_object / add_new_path_component', 'dataquery.NodePath.__str__ / slice_to_str'],
    'bounds': ['the whole expression is a CrossHair symbolic string (z3 sequence): every string of length <= 3, and of length <= 4 starting with one of @ / A space [ - '
               '(quick) / every string of length <= 5 (thorough), over the alphabet { @ [ ] : / . > - 0 1 A space }',
               'print/parse round trip of path OBJECTS: subset slice or last component slice with start / stop / step each absent or a solver integer in -2..2 (int index 0..2), 1..2 (3) components, every separator',
               'parser re-use: any first string of length <= 4 (5) over { @ [ ] : / A 1 space } followed by one of 3 valid expressions on the same parser object',
               'insertions: a solver string of <= 1 (2) characters over the alphabet at every position of 5 well-formed expressions of 5..12 characters',
               'second harness: strings <= 3 over the alphabet widened by { x _ + 9 newline e-acute } (only the exception type is asserted); thorough also one unrestricted code point between two alphabet characters'],
    'assumptions': ['oracle: recursive-descent recogniser written from the EBNF in docs/internals.rst with Python slice semantics',
                    "don't-care (documentation silent, parser lenient/strict either way): ID tokens containing characters other than digits and capital "
                    "letters; a leading '.' separator (the repository's own tests pin it as an error)",
                    'CrossHair realises string lengths and some characters while exploring (finite domain, solver-driven enumeration)'],
    'outside': ['strings longer than the bound other than the insertions above'],
    'trusted_base': ['CrossHair 0.0.110 string model / z3 5.1 sequences'],
}

MANIFEST = {
    'level_text': ('Bounded symbolic model checking: NodePathParser.parse runs on a symbolic string; acceptance, components/slices and the '
                   'print/re-parse round trip are compared on every path with a reference recogniser of the documented EBNF; every string up to '
                   'the length bound over the 12-symbol alphabet is covered by the solver.'),
    'level_note': 'Trusted: CrossHair/z3 string reasoning; the reference recogniser (short, written from the documentation).',
}

FIRST = ['@', '/', '>', '.', '0', '1', 'A', '-', '[', ']', ':', ' ']


def jobs(tier, seed):
    J = []
    thorough = tier == 'thorough'
    maxlen = 5 if thorough else 4
    J.append(Job('len<=3', 'harness.c15', 'h_parse', {'maxlen': 3}, timeout=900, witnesses=['accepted', 'rejected']))
    for c in (FIRST if thorough else ['@', '/', 'A', ' ', '[', '-']):
        J.append(Job('len<=%d,first=%r' % (maxlen, c), 'harness.c15', 'h_parse', {'maxlen': maxlen, 'first': c},
                     timeout=7000 if thorough else 900,
                     witnesses=['dont-care'] if c in '.-' else (['accepted'] if c in '/>01A ' else ['rejected']),
                     core=not thorough))
    for which in ('subset', 'component'):
        J.append(Job('print-roundtrip:' + which, 'harness.c15', 'h_print_roundtrip', {'max_components': 2 if not thorough else 3, 'which': which},
                     timeout=900, witnesses=['roundtrip']))
    J.append(Job('parser-reuse', 'harness.c15', 'h_reuse', {'maxlen': 5 if thorough else 4}, timeout=3000 if thorough else 900,
                 witnesses=['first-accepted', 'first-rejected']))
    for k in range(5):
        J.append(Job('insert:skeleton%d' % k, 'harness.c15', 'h_insert', {'skeleton': k, 'maxlen': 2 if thorough else 1},
                     timeout=7000 if thorough else 900, witnesses=['accepted', 'rejected'], core=not thorough))
    J.append(Job('wide-alphabet', 'harness.c15', 'h_wide', {'maxlen': 3 if thorough else 2}, timeout=900, witnesses=['accepted', 'rejected']))
    if thorough:
        J.append(Job('anychar', 'harness.c15', 'h_anychar', {'prefix': 1, 'suffix': 1}, timeout=3000, witnesses=['rejected'], core=False))
    J.append(Job('canary:end-of-input', 'harness.c15', 'h_parse', {'maxlen': 2}, timeout=300, max_cex=1,
                 mutate="pybufrkit.dataquery::        else:\n            # The expression stops inside-->>        elif False:\n            # The expression stops inside"))
    if thorough:
      J.append(Job('canary:negative-index', 'harness.c15', 'h_parse', {'maxlen': 5, 'first': 'A'}, timeout=900, max_cex=1, core=False,
                   mutate="pybufrkit.dataquery::self.current_slice_elements[0] + 1 if self.current_slice_elements[0] != -1 else None,-->>self.current_slice_elements[0] + 1,"))
    return J
