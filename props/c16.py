from vlib.driver import Job
from vlib import families

META = {
    'level': 'model_checking',
    'files': ['pybufrkit/dataquery.py', 'pybufrkit/templatedata.py', 'pybufrkit/renderer.py', 'pybufrkit/utils.py', 'pybufrkit/decoder.py',
              'pybufrkit/coder.py', 'pybufrkit/templatecompiler.py'],
    'functions': ['dataquery.DataQuerent.query / query_compressed_data / query_uncompressed_data / process_one_subset / filter_for_sub_nodes / '
                  'filter_for_child_sub_nodes / filter_for_attribute_sub_nodes / filter_for_descendant_sub_nodes / descend_and_proceed / '
                  'proceed_next_path_component / filter_for_entities / node_matches / create_values_from_nodes',
                  'dataquery.NodePathParser.parse (concrete expressions)', 'dataquery.QueryResult', 'templatedata.TemplateData.wire',
                  'renderer.NestedJsonRenderer._render_template_data', 'decoder.Decoder.process_template_data (interpreted and compiled, compressed and not)'],
    'bounds': ['programs: replication / sequence / associated-field / bitmap families of vlib/families.py; factors 0..2 (3 thorough), every bitmap bit and '
               'attribute count a solver variable, values opaque solver terms assumed not missing; 1 subset (2 for the selector jobs); compressed with 2 subsets '
               'and difference width <= 2; compiled template variant',
               'paths: every child / attribute path that exists in the shape to depth 3 (4 thorough) plus steps that do not exist; at every step every slice of '
               'the menu { [:], [0], [1], [2], [-1], [-2], [::2], [1:], [::-1], [:1] } (one sliced step per query); subset selectors from a menu',
               'symbolic slices: one step of one existing path carries an int index 0..2 or a slice whose start / stop / step are absent or solver integers in '
               '-2..2 (step != 0); the subset selector likewise; paths to depth 3 (first 6 of the shape)'],
    'assumptions': ['oracle: independent evaluator over the nested JSON rendering; a replication contributes one envelope holding one list per repetition, empty '
                    'selections contribute nothing (documented: zero replication gives an empty list), matches are kept in document order whatever the slice step',
                    "bare-ID statement checked for elements that are never attached as attribute or replication factor anywhere in the shape",
                    'structure is concrete on each explored path and values are only moved: the menu queries run natively on that path (no solver decisions inside)'],
    'outside': ["descendant ('>') steps other than a leading bare ID; negative integer indexes as such (the parser turns them into slices)",
                'an integer subset selector beyond the number of subsets', 'the sample corpus'],
    'trusted_base': ['CrossHair 0.0.110 / z3 5.1', 'bitstring model', 'FM-94 reference (only to bound the shapes)'],
}

MANIFEST = {
    'level_text': ('Bounded symbolic model checking: messages whose shape (replication factors incl. zero, bitmap bits, attribute counts) is made of solver '
                   'variables are decoded, wired and rendered by the real code; on every shape every existing child/attribute path with every menu slice, '
                   'bare-ID queries and subset selectors are answered by the real parser and querent and compared with an independent evaluation over the '
                   'nested JSON rendering; slices and selectors with solver-integer start/stop/step are explored through a stub parser.'),
    'level_note': 'Trusted: CrossHair/z3, bitstring model, the independent path evaluator.',
}

SHAPES = ['op201', 'seq', 'seq-nested', 'fixedrep', 'delayed', 'delayed-short', 'nested-rep', 'rep-of-seq', 'op204', 'op204-rep', 'op221',
          'qa222', 'qa222-on-factor', 'sub223', 'stat224', 'diff225', 'rep232', 'reuse-237', 'bm-assoc', 'bm-in-rep', 'seq-before-bitmap']


def jobs(tier, seed):
    J = []
    thorough = tier == 'thorough'
    depth = 4 if thorough else 3
    for name in SHAPES:
        f = families.by_name(name)
        mf = min(f.get('max_factor', 2) + 1, 4 if thorough else 3)
        J.append(Job('paths:' + name, 'harness.c16', 'h_paths', {'family': name, 'max_factor': mf, 'depth': depth},
                     timeout=3000 if thorough else 900, witnesses=['queried']))
    for name in ('delayed', 'nested-rep', 'qa222'):
        J.append(Job('paths:2subsets:' + name, 'harness.c16', 'h_paths', {'family': name, 'n_subsets': 2, 'max_factor': 1, 'depth': depth, 'nbits': 4096},
                     timeout=3000 if thorough else 900, witnesses=['queried'], core=not thorough))
    # traced variants (the querent itself runs under the solver: code that branches on decoded values is followed too)
    for name, ns in (('qa222', 2), ('stat224', 2), ('delayed', 2)) + ((('sub223', 2), ('nested-rep', 1)) if thorough else ()):
        J.append(Job('paths:traced:%dsubsets:%s' % (ns, name), 'harness.c16', 'h_paths',
                     {'family': name, 'n_subsets': ns, 'max_factor': 1, 'depth': 2, 'menu': 3, 'traced': True, 'nbits': 4096},
                     timeout=3000 if thorough else 1200, witnesses=['queried'], core=not thorough))
    for name in ('c-rep', 'c-fixed', 'c-222', 'c-224', 'c-204'):
        J.append(Job('paths:compressed:' + name, 'harness.c16', 'h_paths', {'family': name, 'compressed': True, 'n_subsets': 2, 'max_factor': 1, 'depth': depth,
                                                                              'max_diff_width': 1 if name in ('c-222', 'c-224') else 2},
                     timeout=1800, witnesses=['queried']))
    for name in ('nested-rep', 'qa222', 'op204-rep', 'stat224'):
        J.append(Job('paths:compiled:' + name, 'harness.c16', 'h_paths', {'family': name, 'compiled': 10, 'max_factor': 2, 'depth': depth},
                     timeout=1800, witnesses=['queried']))
    # symbolic slices: split by the (shape-relative) index of the path that carries the solver slice
    for name, mf in ([('delayed', 2), ('nested-rep', 1), ('qa222', 1)] if not thorough else
                     [(n, min(families.by_name(n).get('max_factor', 2), 2)) for n in SHAPES[:14]]):
        for sk in range(6 if thorough else 3):
            J.append(Job('symslice:slice:%s,path=%d' % (name, sk), 'harness.c16', 'h_symslice',
                         {'family': name, 'max_factor': mf, 'kind': 'slice', 'depth': 3, 'max_skeletons': 6 if thorough else 3,
                          'fixed_choices': {'skeleton': sk}},
                         timeout=7000 if thorough else 1500, core=False, witnesses=[]))
        J.append(Job('symslice:int:' + name, 'harness.c16', 'h_symslice', {'family': name, 'max_factor': mf, 'kind': 'int', 'depth': 3},
                     timeout=3000 if thorough else 900, witnesses=['answered']))
    J.append(Job('symslice:subset', 'harness.c16', 'h_symslice', {'family': 'fixedrep', 'n_subsets': 3, 'kind': 'int', 'sym_subset': True,
                                                                 'depth': 2, 'max_skeletons': 2, 'nbits': 4096}, timeout=1800, witnesses=['answered']))
    J.append(Job('symslice:subset-int', 'harness.c16', 'h_symslice', {'family': 'fixedrep', 'n_subsets': 3, 'kind': 'int', 'sym_subset': True, 'subset_kind': 'int',
                                                                     'depth': 2, 'max_skeletons': 2, 'nbits': 4096}, timeout=1800, witnesses=['answered']))
    J.append(Job('canary:envelope', 'harness.c16', 'h_paths', {'family': 'delayed', 'max_factor': 2, 'depth': 2}, timeout=600, max_cex=1,
                 mutate="pybufrkit.dataquery::            return [replication_envelope] if replication_envelope else []-->>            return replication_envelope"))
    J.append(Job('canary:document-order', 'harness.c16', 'h_paths', {'family': 'op201', 'depth': 2}, timeout=600, max_cex=1,
                 mutate="pybufrkit.dataquery::            for (idx, node) in sorted(filtered_nodes, key=lambda x: x[0])-->>            for (idx, node) in filtered_nodes"))
    J.append(Job('canary:compressed-subset', 'harness.c16', 'h_paths', {'family': 'c-rep', 'compressed': True, 'n_subsets': 2, 'max_factor': 1, 'depth': 2, 'max_diff_width': 2},
                 timeout=600, max_cex=1,
                 mutate="pybufrkit.dataquery::        for i_subset in subset_indices:\n            decoded_values = template_data.decoded_values_all_subsets[i_subset]\n            values = self.create_values_from_nodes(nodes, decoded_values)-->>        for i_subset in subset_indices:\n            decoded_values = template_data.decoded_values_all_subsets[0]\n            values = self.create_values_from_nodes(nodes, decoded_values)"))
    J.append(Job('canary:int-slice', 'harness.c16', 'h_symslice', {'family': 'fixedrep', 'kind': 'int', 'depth': 2}, timeout=600, max_cex=1,
                 mutate="pybufrkit.dataquery::                    isinstance(path_component.slice, int) and path_component.slice < len(nodes_matched):-->>                    isinstance(path_component.slice, int) and path_component.slice <= len(nodes_matched):"))
    return J
