from vlib.driver import Job

META = {
    'level': 'model_checking',
    'files': ['pybufrkit/mdquery.py', 'pybufrkit/bufr.py', 'pybufrkit/decoder.py', 'pybufrkit/definitions', 'pybufrkit/query.py'],
    'functions': ['mdquery.MetadataExprParser.parse', 'mdquery.MetadataQuerent.query', 'bufr.SectionConfigurer.configure_section / get_configuration / '
                  'info_configuration', 'decoder.Decoder.process (info_only and full) / process_section / process_unexpanded_descriptors',
                  'decoder.generate_bufr_message (info_only)', 'bitops.BitStringBitReader over the bitstring model'],
    'bounds': ['expression: every string of length <= 4 (quick) / <= 5 (thorough, split by first character) over the alphabet { % . 0 1 a space - } as a z3 sequence',
               'messages: editions 2, 3, 4; section 2 present / absent (solver choice); surplus octets in section 1 (0 or 2); every uint header field that does '
               'not steer the structure is an unconstrained solver integer of its field width (metadata-only runs: also the table versions and centres)',
               "queries: '%name' and '%k.name' (k in 0..6 and 11) for every parameter name of the three edition layouts plus names that exist nowhere; "
               "'%k.name' with k a solver integer in -2..7 through a stub parser",
               'metadata-only vs full decode: template [001004 002001] with solver data bits; damaged data = data section shorter than the template needs, or an element descriptor no table defines',
               'stream scanning: declared total length deviating by a solver-chosen delta in {0, -3, +2, +5} from the real length, a second message and 0..2 trailing bytes'],
    'assumptions': ['oracle: FM-94 octet tables of editions 2-4 with the documented parameter names, written out in harness/c17.py (nothing read from pybufrkit/definitions)',
                    "don't-care: more than one dot in an expression; section-index tokens that Python's int() accepts beyond plain digits (sign, blanks, underscore)"],
    'outside': ['truncated messages in metadata-only mode (the skip over the data section needs the bytes to be there; truncation is the subject of C12)',
                'edition 1 layout', 'expressions longer than the bound'],
    'trusted_base': ['CrossHair 0.0.110 / z3 5.1 (integers, sequences)', 'bitstring model (conformance-swept against the real library)'],
}

MANIFEST = {
    'level_text': ('Bounded symbolic model checking: MetadataExprParser.parse runs on a symbolic string against a recogniser of the documented forms; whole '
                   'messages whose header fields are solver integers are decoded (metadata-only and fully) by the real decoder and every %name / %k.name query '
                   '(k also a solver integer) is compared with FM-94 octet tables written out in the harness; metadata-only vs full decode and metadata-only '
                   'stream scanning are compared on solver data bits and solver-chosen declared lengths.'),
    'level_note': 'Trusted: CrossHair/z3, bitstring model, the hard-coded FM-94 layouts.',
}


def jobs(tier, seed):
    J = []
    thorough = tier == 'thorough'
    J.append(Job('expr:len<=3', 'harness.c17', 'h_expr', {'maxlen': 3}, timeout=900, witnesses=['accepted', 'rejected', 'accepted-indexed']))
    maxlen = 5 if thorough else 4
    for c in '% .01a-':
        J.append(Job('expr:len<=%d,first=%r' % (maxlen, c), 'harness.c17', 'h_expr', {'maxlen': maxlen, 'first': c},
                     timeout=7000 if thorough else 900, core=not thorough,
                     witnesses=['accepted', 'accepted-indexed'] if c == '%' else ['rejected']))
    for ed in (2, 3, 4):
        J.append(Job('query-info:ed%d' % ed, 'harness.c17', 'h_query', {'edition': ed}, timeout=900, witnesses=['queried', 'queried-sec2']))
        J.append(Job('query-full:ed%d' % ed, 'harness.c17', 'h_query', {'edition': ed, 'full': True}, timeout=900,
                     witnesses=['queried', 'queried-sec2']))
        J.append(Job('info-vs-full:ed%d' % ed, 'harness.c17', 'h_info', {'edition': ed, 'mode': 'valid'}, timeout=900, witnesses=['agree']))
        J.append(Job('info-short-data:ed%d' % ed, 'harness.c17', 'h_info', {'edition': ed, 'mode': 'short'}, timeout=900,
                     witnesses=['data-damaged']))
        J.append(Job('info-bad-descriptor:ed%d' % ed, 'harness.c17', 'h_info', {'edition': ed, 'mode': 'baddesc'}, timeout=900,
                     witnesses=['data-damaged']))
        J.append(Job('info-scan:ed%d' % ed, 'harness.c17', 'h_info', {'edition': ed, 'mode': 'scan'}, timeout=900,
                     witnesses=['scan+0', 'scan-3', 'scan+2', 'scan+5']))
    if thorough:
        J.append(Job('info-vs-full:rep', 'harness.c17', 'h_info', {'edition': 4, 'mode': 'valid', 'ids': [101002, 12001, 1004], 'nbits': 24 + 3},
                     timeout=1800, witnesses=['agree'], core=False))
    J.append(Job('canary:first-match', 'harness.c17', 'h_query', {'edition': 3}, timeout=300, max_cex=1,
                 mutate="pybufrkit.mdquery::        for section in sections:-->>        for section in reversed(sections):"))
    J.append(Job('canary:index-filter', 'harness.c17', 'h_query', {'edition': 4}, timeout=300, max_cex=1,
                 mutate="pybufrkit.mdquery::if s.get_metadata('index') == section_index or section_index is None]-->>if s.get_metadata('index') >= (section_index or 0)]"))
    J.append(Job('canary:declared-length', 'harness.c17', 'h_info', {'edition': 4, 'mode': 'scan'}, timeout=300, max_cex=1,
                 mutate="pybufrkit.decoder::            if info_only:\n                bufr_message.serialized_bytes = s[idx_start: idx_start + bufr_message.length.value]-->>            if False:\n                pass"))
    J.append(Job('canary:non-numeric-index', 'harness.c17', 'h_expr', {'maxlen': 3, 'first': '%'}, timeout=300, max_cex=1,
                 mutate="pybufrkit.mdquery::                raise MetadataExprParsingError('Invalid section index: {}'.format(section_index))-->>                section_index = None"))
    return J
