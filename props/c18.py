from vlib.driver import Job

NEEDS_MODEL = True

META = {
    'level': 'model_checking',
    'files': ['pybufrkit/script.py', 'pybufrkit/query.py', 'pybufrkit/dataquery.py', 'pybufrkit/mdquery.py'],
    'functions': ['script.process_embedded_query_expr', 'script.ScriptRunner.__init__ / process_pragma / run / prepare_variables / get_query_result / '
                  'flatten_data_values', 'query.BufrMessageQuerent.query', 'dataquery.QueryResult.all_values / get_values', 'utils.flatten_list'],
    'bounds': ['script text as a z3 sequence: every string of length <= 4 (quick) / <= 5 (thorough), split by first character, over the alphabet '
               '{ $ { } \' " # newline space x y }; thorough also 2+1+2 characters with one unrestricted code point in the middle',
               'nest levels: query results of solver-chosen shape - 1..2 subsets, nesting depth <= 3 (2 for two subsets in quick), width <= 2, leaves solver integers; '
               'pragma in {none, 0, 2, 4} x argument in {none, 0, 1, 2, 4}',
               'assembled scripts: 1..3 (4) items chosen by the solver from {code, single-quoted literal with ${..} and #, double-quoted literal with an apostrophe and ${..}, '
               'comment with quotes and ${..}, data query, data query with 0..2 leading / 0..1 trailing blanks, child-path data query, metadata query, two metadata queries '
               'with blanks, $ and { that are not an embedded query}, optional pragma line, optional nest-level argument; run against a really decoded 2-subset message',
               'literal / comment content as z3 sequences of length <= 2 / <= 1 (3 / 2) over { $ { } # x space and the other quote } in the context <quote> LITERAL <quote> ${a} # COMMENT'],
    'assumptions': ['oracle: an independent scanner (quotes end at the same quote, # ends at newline, ${ outside both ends at the next })',
                    "don't-care: an unterminated ${ at the end of the text, a newline inside a quoted literal (not escape-free one-line literals)",
                    'compile() / exec() are C level: CrossHair realises the (alphabet-bounded) script text there - solver-driven enumeration of a finite domain'],
    'outside': ['scripts longer than the bound; backslash escapes and triple-quoted literals; query semantics (C16, C17)'],
    'trusted_base': ['CrossHair 0.0.110 / z3 5.1 (sequences, integers)'],
}

MANIFEST = {
    'level_text': ('Bounded symbolic model checking: process_embedded_query_expr runs on a symbolic string and is compared on every path with an independent '
                   'scanner (names, injectivity, every other character preserved); ScriptRunner is run on query results of solver-chosen shape with solver '
                   'integers for the nest-level relations and pragma precedence, and on scripts assembled by the solver from fragments against a really decoded message.'),
    'level_note': 'Trusted: CrossHair/z3 string reasoning; the independent scanner.',
}

FIRST = ['$', '{', '}', "'", '"', '#', '\n', ' ', 'x', 'y']


def jobs(tier, seed):
    J = []
    thorough = tier == 'thorough'
    J.append(Job('scan:len<=3', 'harness.c18', 'h_scan', {'maxlen': 3}, timeout=900, witnesses=['plain', 'dont-care']))
    maxlen = 5 if thorough else 4
    for c in (FIRST if thorough else ['$', "'", '#', ' ', 'x']):
        J.append(Job('scan:len<=%d,first=%r' % (maxlen, c), 'harness.c18', 'h_scan', {'maxlen': maxlen, 'first': c},
                     timeout=7000 if thorough else 900, core=not thorough, witnesses=['embedded'] if c in '$ x' and (thorough or c == '$') else ['plain']))
    # longer strings over the characters that drive the state machine
    J.append(Job('scan:len<=%d,core-alphabet' % (6 if thorough else 5), 'harness.c18', 'h_scan',
                 {'maxlen': 6 if thorough else 5, 'alphabet': "${}'#x"}, timeout=7000 if thorough else 900, core=False, witnesses=['embedded']))
    J.append(Job('levels:1-subset', 'harness.c18', 'h_levels', {'max_subsets': 1, 'depth': 3, 'width': 2}, timeout=1800, witnesses=['levels-1']))
    J.append(Job('levels:2-subsets', 'harness.c18', 'h_levels', {'max_subsets': 2, 'depth': 3 if thorough else 2, 'width': 2},
                 timeout=7000 if thorough else 1800, core=not thorough, witnesses=['levels-2']))
    for pragma in (None, 0, 2, 4):
        J.append(Job('run:assembled,pragma=%s' % pragma, 'harness.c18', 'h_run', {'max_items': 2, 'pragma_fixed': pragma}, timeout=1800,
                     witnesses=['ran', 'ran-meta-only']))
    for item0 in (['code', 'sq', 'dq', 'comment', 'data', 'data-blanks', 'meta', 'meta2', 'data2', 'dollar'] if thorough else ['comment', 'data-blanks', 'meta2']):
        J.append(Job('run:assembled-%d,first=%s' % (4 if thorough else 3, item0), 'harness.c18', 'h_run',
                     {'max_items': 4 if thorough else 3, 'pragma': False, 'arg': False, 'item0': item0},
                     timeout=7000 if thorough else 1800, core=not thorough, witnesses=['ran'] if item0 in ('data', 'data-blanks', 'data2') else ['ran', 'ran-meta-only']))
    J.append(Job('context:literal+comment', 'harness.c18', 'h_context', {'maxlen': 2, 'maxcom': 1}, timeout=900, witnesses=['context']))
    if thorough:
        J.append(Job('context:literal+comment,3+2', 'harness.c18', 'h_context', {'maxlen': 3, 'maxcom': 2}, timeout=7000, core=False, witnesses=['context']))
    if thorough:
        J.append(Job('scan:anychar', 'harness.c18', 'h_anychar', {'prefix': 2, 'suffix': 2}, timeout=3000, core=False, witnesses=['checked']))
    J.append(Job('canary:dollar-in-quote', 'harness.c18', 'h_scan', {'maxlen': 4, 'first': "'"}, timeout=600, max_cex=1,
                 mutate="pybufrkit.script::        elif c == '$' and state == STATE_IDLE:  # an unquoted $-->>        elif c == '$' and state != STATE_COMMENT:"))
    J.append(Job('canary:hash-in-quote', 'harness.c18', 'h_context', {'maxlen': 1, 'maxcom': 0}, timeout=600, max_cex=1,
                 mutate="pybufrkit.script::        elif c == '#' and state == STATE_IDLE:-->>        elif c == '#':"))
    J.append(Job('canary:trim', 'harness.c18', 'h_scan', {'maxlen': 4, 'first': '$'}, timeout=600, max_cex=1,
                 mutate="pybufrkit.script::                s = ''.join(query_expr).strip()-->>                s = ''.join(query_expr)"))
    J.append(Job('canary:level2', 'harness.c18', 'h_levels', {'max_subsets': 1, 'depth': 2, 'width': 2}, timeout=600, max_cex=1,
                 mutate="pybufrkit.script::        elif data_values_nest_level == DATA_VALUES_NEST_LEVEL_2:\n            return qr.all_values(flat=True)-->>        elif data_values_nest_level == DATA_VALUES_NEST_LEVEL_2:\n            return qr.all_values()"))
    J.append(Job('canary:pragma-precedence', 'harness.c18', 'h_run', {'max_items': 1}, timeout=600, max_cex=1,
                 mutate="pybufrkit.script::        if data_values_nest_level is not None:-->>        if data_values_nest_level is not None and self.pragma['data_values_nest_level'] == 1:"))
    return J
