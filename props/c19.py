from vlib.driver import Job

META = {
    'level': 'model_checking',
    'files': ['pybufrkit/bitops.py', 'pybufrkit/constants.py', 'pybufrkit/errors.py'],
    'functions': ['bitops.BitStringBitReader.{read_uint,read_int,read_bool,read_bin,read_bytes,_bit_stream_read,get_pos}',
                  'bitops.BitReader.{read,read_uint_or_none}',
                  'bitops.BitStringBitWriter.{write_uint,write_int,write_bool,write_bin,write_bytes,skip,set_uint,get_pos}',
                  'bitops.BitWriter.write'],
    'bounds': ['widths 1..64 (signed 2..64) chosen by solver fork; value a solver integer from -2 to 2^n+1 (unsigned) / '
               '-2^(n-1)-1..2^(n-1)+1 (signed), i.e. inside, on and beyond the range',
               'bit offset 0..7 via a prefix of solver booleans',
               'bytes of length 0..3 over the alphabet {00,20,41,FF} against field widths 0..3 bytes',
               'binary strings of length 0..5', 'mixed sequences of <= 3 (quick) / 4 (thorough) fields, widths from {1,2,7,8,9,16,24,31}',
               'in-place overwrite at widths {1,2,7,8,9,12,16,24,31,32}', 'read past the end: streams of 3 bytes, every skip 0..24'],
    'assumptions': ['the symbolic model of the bitstring module (vlib/model/bitstring.py) replaces the C-backed library during '
                    'exploration; it is compared with the real library on a concrete sweep at every run and every '
                    'counterexample is replayed on the real library before it is reported'],
    'outside': ['field sequences longer than 4; widths above 64'],
    'trusted_base': ['CrossHair 0.0.110 / z3 5.1 path exploration', 'bitstring model (validated by concrete conformance sweep)'],
}


def jobs(tier, seed):
    J = []
    thorough = tier == 'thorough'
    for lo, hi in ((1, 16), (17, 32), (33, 48), (49, 64)):
        J.append(Job('uint[%d-%d]' % (lo, hi), 'harness.c19', 'h_uint', {'widths': [lo, hi]}, timeout=400,
                     witnesses=['roundtrip', 'refused']))
        J.append(Job('int[%d-%d]' % (max(2, lo), hi), 'harness.c19', 'h_int', {'widths': [max(2, lo), hi]}, timeout=400,
                     witnesses=['roundtrip', 'refused']))
    for nb in range(4):
        J.append(Job('bytes[field=%d]' % nb, 'harness.c19', 'h_bytes', {'nbytes': nb}, timeout=600, witnesses=['roundtrip']))
    J.append(Job('bin_bool', 'harness.c19', 'h_bin_bool', timeout=400, witnesses=['roundtrip']))
    J.append(Job('sequence', 'harness.c19', 'h_sequence', {'nfields': 3 if thorough else 2, 'prefix': thorough},
                 timeout=2400 if thorough else 500, witnesses=['roundtrip']))
    for ws in ([1, 2, 7], [8, 9, 12], [16, 24], [31, 32]):
        J.append(Job('set_uint%s' % ws, 'harness.c19', 'h_set_uint', {'widths': ws}, timeout=400,
                     witnesses=['overwritten', 'refused']))
    for kind in ('uint', 'int', 'bool', 'bytes', 'bin'):
        J.append(Job('read_past_end[%s]' % kind, 'harness.c19', 'h_read_past_end', {'nbytes': 3, 'kind': kind}, timeout=600,
                     witnesses=['past_end', 'in_range']))
    # canaries (vacuity guards): each mutation must flip its harness to a reproduced counterexample
    J.append(Job('canary:missing-rule', 'harness.c19', 'h_uint', {'widths': [1, 4]}, timeout=200,
                 mutate='pybufrkit.bitops::if nbits > 1 and value ==-->>if nbits > 0 and value ==', max_cex=1))
    J.append(Job('canary:sign', 'harness.c19', 'h_int', {'widths': [2, 5]}, timeout=200,
                 mutate='pybufrkit.bitops::(-1 if self.read_bool() else 1)-->>(1 if self.read_bool() else -1)', max_cex=1))
    if thorough:
        J.append(Job('canary:pad', 'harness.c19', 'h_bytes', timeout=300,
                     mutate="pybufrkit.bitops::value += b' ' * (nbytes - value_len)-->>value += b' ' * (nbytes - value_len - 1) + b'\\0'", max_cex=1))
    return J

MANIFEST = {
    'level_text': ('Bounded symbolic model checking: every method of the real BitStringBitReader/BitStringBitWriter is executed '
                   'symbolically (CrossHair/z3) with the field value, bit offset, width and field types as solver variables; all '
                   'paths are explored and the round-trip / refusal / in-place-overwrite / read-past-end assertions hold on each. '
                   'Bounded: widths 1..64, <= 4 fields, bytes <= 3 over a 4-byte alphabet.'),
    'level_note': ('Trusted: CrossHair/z3, and the symbolic model of the C-backed bitstring module (compared with the real library '
                   'on a concrete sweep at every run; every counterexample is replayed on the real library).'),
}
