from vlib.driver import Job

META = {
    'level': 'model_checking',
    'files': ['pybufrkit/dataprocessor.py', 'pybufrkit/decoder.py', 'pybufrkit/tables.py', 'pybufrkit/coder.py', 'pybufrkit/descriptors.py'],
    'functions': ['dataprocessor.BufrTableDefinitionProcessor.process / _process_table_a_entries / _process_table_b_entries / _process_table_b_one_entry / '
                  '_process_table_d_entries / _process_table_d_one_entry / _get_n_repeats', 'decoder.generate_bufr_message (definition branch)',
                  'tables.TableGroupCache.add_extra_entries / invalidate / get / has_extra_entries', 'tables.BaseTable.load_json_files', 'tables.TableB / TableD constructors',
                  'tables._fix_ncep_descriptors', 'tables.BufrTableGroup.template_from_ids', 'decoder.Decoder.process / process_template_data and the Coder element kernels'],
    'bounds': ['extraction: scale / reference / width strings as z3 sequences of length <= 2 / 3 / 2 over digits and blanks, both signs, 0..3 sequence members',
               'application: one new element 0-48-001 whose width (1..32) and reference value (-2^31..2^31) are solver integers, scale in {0, 1, -1, 2}, unit in '
               '{K, CODE TABLE, FLAG TABLE, NUMERIC}; three new sequences (plain, NCEP replication-only, nested with fixed replication); 9 data templates mixing new and '
               'standard descriptors and 201/202 operators; all data bits solver variables; factors 0..2',
               'protocol: definition message with 1..2 element and 0..2 sequence definitions; sign / scale / reference / width characters of the first element solver bytes over '
               '{+,-} x {0,1} x {+,-} x {0,7}5 x {3,8,13,18} (wider alphabets in thorough); data message payload 96 solver bits; a definition message with zero subsets; optionally a second definition message that redefines 0-48-001 and the first sequence'],
    'assumptions': ['oracle: FM-94 reference run over tables extended by exactly the defined entries, sequences expanded inline (which gives the NCEP replication-only sequence its meaning)',
                    'extra entries are process-global: every explored path starts with them cleared (one harness per process)',
                    'TableGroupCache.get (JSON loading, construction of ~1500 descriptor objects) runs natively, i.e. with tracing suspended; the real method is executed'],
    'outside': ['code/flag table definitions; definition strings that denote no number'],
    'trusted_base': ['CrossHair 0.0.110 / z3 5.1', 'bitstring model', 'FM-94 reference', 'vlib/msgbuild.py'],
}

MANIFEST = {
    'level_text': ('Bounded symbolic model checking: element definitions with solver-integer width and reference value are registered through the real table '
                   'cache and data messages over new and standard descriptors are decoded from solver bits, compared with the FM-94 reference over the extended '
                   'table; the real generate_bufr_message runs over [definition message with solver characters, data message with solver bits]; the extraction '
                   'kernels run on symbolic digit strings.'),
    'level_note': 'Trusted: CrossHair/z3, bitstring model, FM-94 reference, independent NCEP-layout message builder.',
}


def jobs(tier, seed):
    J = []
    thorough = tier == 'thorough'
    J.append(Job('extract', 'harness.c20', 'h_extract', {'scale_len': 2 if thorough else 1, 'ref_len': 3 if thorough else 2, 'width_len': 2}, timeout=3000 if thorough else 900,
                 witnesses=['extracted', 'not-a-number']))
    for t in range(9):
        J.append(Job('apply:template%d' % t, 'harness.c20', 'h_apply', {'template': t, 'max_width': 32 if thorough else 12, 'no_missing': t in (2, 5, 7, 8), 'max_factor': 1 if t in (7, 8) else 2}, timeout=3000 if thorough else 900,
                     witnesses=['applied']))
    # one exploration split into parallel jobs by the number of element / sequence definitions in the definition message
    for n_b in (0, 1):
        for n_d in (0, 1, 2):
            fixed = {'n_b': n_b, 'n_d': n_d}
            wit = ['governed'] + (['replication-only-sequence'] if n_d == 2 else [])
            J.append(Job('protocol:b=%d,d=%d' % (n_b + 1, n_d), 'harness.c20', 'h_protocol', {'wide': thorough, 'fixed_choices': fixed},
                         timeout=7000 if thorough else 1500, witnesses=wit))
            J.append(Job('protocol:redefine:b=%d,d=%d' % (n_b + 1, n_d), 'harness.c20', 'h_protocol',
                         {'narrow': not thorough, 'redefine': True, 'fixed_choices': fixed}, timeout=7000 if thorough else 1500,
                         witnesses=wit + ['redefined']))
    J.append(Job('protocol:missing-values', 'harness.c20', 'h_protocol', {'narrow': True, 'with_missing': True, 'fixed_choices': {'n_b': 1, 'n_d': 1}},
                 timeout=1500, witnesses=['governed']))
    J.append(Job('protocol:empty-definition', 'harness.c20', 'h_protocol', {'empty_definition': True, 'narrow': True}, timeout=900, witnesses=['nothing-defined']))
    J.append(Job('canary:sign', 'harness.c20', 'h_extract', {'scale_len': 1, 'ref_len': 1, 'width_len': 1}, timeout=600, max_cex=1,
                 mutate="pybufrkit.dataprocessor::                (1 if next_value().strip() == '+' else -1) * int(next_value().strip()),\n                int(next_value().strip()),-->>                (1 if next_value().strip() != '' else -1) * int(next_value().strip()),\n                int(next_value().strip()),"))
    J.append(Job('canary:no-invalidate', 'harness.c20', 'h_protocol', {}, timeout=600, max_cex=1,
                 mutate="pybufrkit.decoder::                    TableGroupCacheManager.invalidate()\n-->>"))
    J.append(Job('canary:ncep-fix', 'harness.c20', 'h_apply', {'template': 2, 'max_width': 4}, timeout=600, max_cex=1,
                 mutate="pybufrkit.tables::        if TableGroupCacheManager.has_extra_entries():-->>        if False:"))
    J.append(Job('canary:extra-entries-dropped', 'harness.c20', 'h_apply', {'template': 0, 'max_width': 4}, timeout=600, max_cex=1,
                 mutate="pybufrkit.tables::        if self.extra_entries:\n            contents.append(self.extra_entries)-->>        if False:\n            contents.append(self.extra_entries)"))
    return J
