#!/bin/sh
# Build the overlay environment (offline): /venv's interpreter and packages + crosshair-tool from the wheelhouse.
set -e
cd "$(dirname "$0")"
if [ ! -x .venv/bin/python ] || ! .venv/bin/python -c "import crosshair, z3" 2>/dev/null; then
    rm -rf .venv
    /venv/bin/python -m venv .venv
    SP=$(.venv/bin/python -c "import site; print(site.getsitepackages()[0])")
    echo "import site; site.addsitedir('/venv/lib/python3.12/site-packages')" > "$SP/_overlay.pth"
    PIP_NO_INDEX=1 .venv/bin/pip install -q --no-index --find-links /opt/veriftools/wheels crosshair-tool >/dev/null
fi
.venv/bin/python -c "import crosshair, z3, bitstring, six" 
