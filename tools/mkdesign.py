#!/verif/.venv/bin/python
"""
Regenerate the machine-written appendix of DESIGN.md (everything after the marker line) from
props/*.py (META), known_findings.jsonl, seeded/*/meta.json and seeded/MATRIX.json.
The hand-written part of DESIGN.md above the marker is left untouched.
"""
import importlib
import json
import os
import sys

ROOT = os.path.dirname(os.path.dirname(os.path.abspath(__file__)))
sys.path.insert(0, ROOT)
sys.path.insert(0, os.environ.get('VERIF_REPO', '/repo'))
sys.dont_write_bytecode = True

MARK = '<!-- GENERATED APPENDIX: tools/mkdesign.py rewrites everything below this line -->'

out = [MARK, '', '## Appendix A. Checks as built (generated from props/*.py)', '']
for i in range(1, 21):
    pid = 'C%02d' % i
    try:
        mod = importlib.import_module('props.' + pid.lower())
    except ModuleNotFoundError:
        out += ['### %s - no check' % pid, '']
        continue
    m = mod.META
    jq = mod.jobs('quick', 0)
    jt = mod.jobs('thorough', 0)
    out.append('### %s' % pid)
    out.append('')
    out.append('* **Real functions executed:** ' + '; '.join(m.get('functions', [])))
    out.append('* **Bounds:**')
    for b in m.get('bounds', []):
        out.append('  * ' + b)
    out.append('* **Assumptions / oracle:**')
    for b in m.get('assumptions', []):
        out.append('  * ' + b)
    out.append('* **Outside the claim:** ' + '; '.join(m.get('outside', [])))
    out.append('* **Trusted base:** ' + '; '.join(m.get('trusted_base', [])))
    nq = [j for j in jq if j.kind != 'canary']
    nt = [j for j in jt if j.kind != 'canary']
    out.append('* **Jobs:** quick %d solver harness runs + %d canary mutations; thorough %d + %d.  Canaries (in-memory mutations of the module '
               'source that the harness must flag): %s' % (len(nq), len(jq) - len(nq), len(nt), len(jt) - len(nt),
                                                          ', '.join(sorted({j.name for j in jt if j.kind == 'canary'})) or 'none'))
    out.append('')

out += ['## Appendix B. Findings file (generated from known_findings.jsonl)', '',
        '| id | property | status | commit | what |', '|---|---|---|---|---|']
for line in open(os.path.join(ROOT, 'known_findings.jsonl')):
    line = line.strip()
    if not line or line.startswith('#'):
        continue
    f = json.loads(line)
    what = f['what']
    for pre in ('fixed: property=%s %s ' % (f['property'], f.get('commit', '')),):
        if what.startswith(pre):
            what = what[len(pre):]
    out.append('| %s | %s | %s | %s | %s |' % (f.get('id'), f['property'], f['status'], f.get('commit', '-'), what.replace('|', '\\|')[:400]))
out.append('')

mpath = os.path.join(ROOT, 'seeded', 'MATRIX.json')
matrix = json.load(open(mpath)) if os.path.exists(mpath) else {}
out += ['## Appendix C. Seeded changes and which check catches them (generated from seeded/)', '',
        '| seeded change | property | what it needs to manifest (first lines of the author\'s notes) | quick check | caught by job(s) |', '|---|---|---|---|---|']
for d in sorted(os.listdir(os.path.join(ROOT, 'seeded'))):
    mp = os.path.join(ROOT, 'seeded', d, 'meta.json')
    if not os.path.exists(mp):
        continue
    m = json.load(open(mp))
    notes = ' '.join(m.get('needs_to_manifest', '').split())[:260].replace('|', '\\|')
    r = dict(matrix.get(d, {}))
    if m.get('status', '').startswith('superseded'):
        r['verdict'] = 'quiet, as it must be: ' + m['status'][:160]
    out.append('| %s | %s | %s | %s | %s |' % (d, m['property'], notes, r.get('verdict', 'not evaluated'), (r.get('jobs') or '')[:200].replace('|', '\\|')))
out.append('')

p = os.path.join(ROOT, 'DESIGN.md')
text = open(p).read()
if MARK in text:
    text = text[:text.index(MARK)]
text = text.rstrip('\n') + '\n\n' + '\n'.join(out) + '\n'
open(p, 'w').write(text)
print('appendix written: %d lines' % len(out))
