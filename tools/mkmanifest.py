#!/verif/.venv/bin/python
"""Regenerate MANIFEST.json from props/*.py (MANIFEST dicts) - run after adding or changing a check."""
import importlib
import json
import os
import sys

ROOT = os.path.dirname(os.path.dirname(os.path.abspath(__file__)))
sys.path.insert(0, ROOT)
sys.path.insert(0, os.environ.get('VERIF_REPO', '/repo'))
sys.dont_write_bytecode = True

ALL = ['C%02d' % i for i in range(1, 21)]
NA_REASONS = {}
if os.path.exists(os.path.join(ROOT, 'tools', 'not_applicable.json')):
    NA_REASONS = json.load(open(os.path.join(ROOT, 'tools', 'not_applicable.json')))

checks, engines_e1, engines_e2, na = [], [], [], []
for pid in ALL:
    try:
        mod = importlib.import_module('props.' + pid.lower())
    except ModuleNotFoundError as e:
        if e.name != 'props.' + pid.lower():
            raise
        na.append({'property_id': pid, 'reason': NA_REASONS.get(pid, 'check not built yet in this commit (work in progress; design in DESIGN.md section 3)')})
        continue
    m = mod.MANIFEST
    engines_e1.append(pid)
    if m.get('uses_e2'):
        engines_e2.append(pid)
    checks.append({
        'property_id': pid,
        'quick_cmd': './check.sh %s quick' % pid,
        'thorough_cmd': './check.sh %s thorough' % pid,
        'evidence_file': '/verif/evidence/%s.json' % pid,
        'replay_cmd_template': './check.sh --replay {path}',
        'engine': 'E1-crosshair' + ('+E2-smt' if m.get('uses_e2') else ''),
        'level_claimed': {'category': mod.META.get('level', 'model_checking'), 'text': m['level_text'],
                          'design_ref': 'DESIGN.md section 3, ' + pid},
        'level_note': m['level_note'],
        'technique': m.get('technique', 'symbolic execution of the real code with an SMT solver (CrossHair + z3), path-exhaustive within stated bounds; counterexamples replayed on the real library'),
    })

manifest = {
    'version': 1,
    'setup_cmd': './setup.sh',
    'hooks': {
        'guard': 'PYBUFRKIT_VERIF',
        'enable': 'no source hooks are needed: harness processes import /repo/pybufrkit directly and shadow the third-party bitstring module via sys.modules (vlib/runh.py); canary mutations are applied to module source in memory only',
        'baseline_off_cmd': 'cd /repo && /venv/bin/python -m pytest -ra -q -p no:cacheprovider --timeout=900 --continue-on-collection-errors',
        'source_commits': [],
        'add_only': True,
    },
    'engines': [
        {'name': 'E1-crosshair', 'path': 'vlib/engine.py', 'serves_properties': engines_e1,
         'kind_free_text': 'path-exhaustive symbolic execution of the real pybufrkit functions with CrossHair 0.0.110 / z3 5.1 over a symbolic model of the bitstring module (vlib/model/bitstring.py); counterexamples are replayed on the real library'},
        {'name': 'E2-smt', 'path': 'vlib/e2.py', 'serves_properties': engines_e2,
         'kind_free_text': 'direct SMT obligations (z3 Python API, cvc5 cross-check) generated from the AST of the real numeric kernels and from the current table files'},
    ],
    'checks': checks,
    'not_applicable': na,
    'notes': 'Every check regenerates its encoding from /repo\'s working tree at run time. Exit 3 = harness error / inconclusive core harness (never reported as success). Known findings: /verif/known_findings.jsonl.',
}
json.dump(manifest, open(os.path.join(ROOT, 'MANIFEST.json'), 'w'), indent=1)
print('checks:', [c['property_id'] for c in checks], 'not_applicable:', [n['property_id'] for n in na])
