#!/bin/sh
# usage: tools/seed_confirm.sh <dir with patch.diff demo.py notes.md> <seed-id> <PROPERTY>
# Confirms in a scratch worktree of /repo: patch applies, package imports, baseline suite passes with the patch,
# demo fails with the patch and passes without.  On success copies to /verif/seeded/<seed-id>/ and writes meta.json.
set -e
SRC=$(cd "$1" && pwd); ID=$2; P=$3
cd "$(dirname "$0")/.."
WT=$(mktemp -d /tmp/seedconf.XXXXXX); rmdir "$WT"
git -C /repo worktree add -q --detach "$WT" HEAD
cleanup() { git -C /repo worktree remove --force "$WT" >/dev/null 2>&1 || true; }
trap cleanup EXIT
cd "$WT"
PYTHONPATH="$WT" /venv/bin/python "$SRC/demo.py" >/dev/null 2>&1 && CLEAN=pass || CLEAN=fail
git apply "$SRC/patch.diff"
PYTHONPATH="$WT" /venv/bin/python "$SRC/demo.py" >/tmp/seedconf.$$.demo 2>&1 && PATCHED=pass || PATCHED=fail
PYTHONPATH="$WT" /venv/bin/python -m pytest -q -p no:cacheprovider --timeout=900 -x > /tmp/seedconf.$$.log 2>&1 && SUITE=pass || SUITE=fail
TAIL=$(tail -1 /tmp/seedconf.$$.log)
DEMOTAIL=$(tail -1 /tmp/seedconf.$$.demo | cut -c1-300)
rm -f /tmp/seedconf.$$.log /tmp/seedconf.$$.demo
echo "$ID: demo(clean)=$CLEAN demo(patched)=$PATCHED suite(patched)=$SUITE [$TAIL]"
if [ "$CLEAN" = pass ] && [ "$PATCHED" = fail ] && [ "$SUITE" = pass ]; then
  mkdir -p /verif/seeded/$ID
  cp "$SRC/patch.diff" "$SRC/demo.py" /verif/seeded/$ID/
  [ -f "$SRC/notes.md" ] && cp "$SRC/notes.md" /verif/seeded/$ID/
  ID="$ID" P="$P" TAIL="$TAIL" DEMOTAIL="$DEMOTAIL" python3 - <<'PY'
import json, os, re
d = '/verif/seeded/' + os.environ['ID']
notes = open(d + '/notes.md').read() if os.path.exists(d + '/notes.md') else ''
files = sorted(set(re.findall(r'^\+\+\+ b/(\S+)', open(d + '/patch.diff').read(), re.M)))
json.dump({'id': os.environ['ID'], 'property': os.environ['P'], 'files_changed': files,
           'needs_to_manifest': notes.strip()[:1500],
           'origin': 'independent sub-agent given only the property text and a scratch worktree',
           'confirmed': {'how': 'tools/seed_confirm.sh in a scratch worktree of /repo HEAD',
                         'demo_on_clean_tree': 'exit 0', 'demo_with_patch': 'non-zero: ' + os.environ['DEMOTAIL'],
                         'baseline_suite_with_patch': os.environ['TAIL']}},
          open(d + '/meta.json', 'w'), indent=1)
PY
  echo "  kept as /verif/seeded/$ID"
else
  echo "  REJECTED"
fi
