#!/bin/sh
# usage: tools/seed_recheck.sh [id ...] - does every kept seeded change still apply to /repo HEAD and still break its demo?
cd "$(dirname "$0")/.."
IDS="$@"; [ -z "$IDS" ] && IDS=$(ls seeded | grep -v MATRIX)
for id in $IDS; do
  WT=$(mktemp -d /tmp/seedre.XXXXXX); rmdir "$WT"
  git -C /repo worktree add -q --detach "$WT" HEAD
  ( cd "$WT"
    PYTHONPATH="$WT" /venv/bin/python /verif/seeded/$id/demo.py >/dev/null 2>&1 && C=pass || C=fail
    if git apply /verif/seeded/$id/patch.diff 2>/dev/null; then
      PYTHONPATH="$WT" /venv/bin/python /verif/seeded/$id/demo.py >/dev/null 2>&1 && Q=pass || Q=fail
    else Q=does-not-apply; fi
    echo "$id clean=$C patched=$Q" )
  git -C /repo worktree remove --force "$WT"
done
