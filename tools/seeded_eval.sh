#!/bin/sh
# usage: tools/seeded_eval.sh <seeded-dir> <PROPERTY> [tier]  - run a check against a scratch worktree with the seeded patch applied
# prints CAUGHT / MISSED; never touches /repo's working tree or /verif/evidence.
set -e
D=$(cd "$1" && pwd); P=$2; TIER=${3:-quick}
cd "$(dirname "$0")/.."
WT=$(mktemp -d /tmp/seedwt.XXXXXX); OUT=$(mktemp -d /tmp/seedout.XXXXXX)
rmdir "$WT"
git -C /repo worktree add -q --detach "$WT" HEAD
git -C "$WT" apply "$D/patch.diff"
set +e
VERIF_REPO="$WT" VERIF_OUT_DIR="$OUT" VERIF_JOBS=${VERIF_JOBS:-6} ./check.sh "$P" "$TIER" > "$OUT/log" 2>&1
RC=$?
set -e
if grep -q "^VIOLATION property=$P" "$OUT/log"; then V=CAUGHT; else V=MISSED; fi
echo "$V rc=$RC $(basename "$D") $P $TIER :: $(grep -A1 '^VIOLATION' "$OUT/log" | grep 'job=' | head -2 | cut -c1-260 | tr '\n' ' ')"
grep "^SUMMARY\|HARNESS-ERROR" "$OUT/log" | head -3 | cut -c1-300
git -C /repo worktree remove --force "$WT"
rm -rf "$OUT"
