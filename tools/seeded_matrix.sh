#!/bin/sh
# usage: tools/seeded_matrix.sh [tier] [id ...]   - evaluate seeded changes (all by default) with their property's check in a
# scratch worktree (tools/seeded_eval.sh) and record CAUGHT / MISSED and the catching jobs in seeded/MATRIX.json.
cd "$(dirname "$0")/.."
TIER=${1:-quick}; [ $# -gt 0 ] && shift
IDS="$@"; [ -z "$IDS" ] && IDS=$(ls seeded | grep -v MATRIX)
for id in $IDS; do
  P=$(echo "$id" | cut -d- -f1)
  OUT=$(tools/seeded_eval.sh "seeded/$id" "$P" "$TIER" 2>&1)
  echo "$OUT" | head -2
  ID="$id" TIER="$TIER" OUT="$OUT" python3 - <<'PY'
import json, os, re
p = 'seeded/MATRIX.json'
m = json.load(open(p)) if os.path.exists(p) else {}
out = os.environ['OUT']
first = out.splitlines()[0] if out else ''
verdict = 'CAUGHT' if first.startswith('CAUGHT') else ('MISSED' if first.startswith('MISSED') else 'ERROR')
jobs = sorted(set(re.findall(r'job=(\S+)', out)))
m[os.environ['ID']] = {'verdict': verdict + ' (' + os.environ['TIER'] + ')', 'jobs': ', '.join(jobs)[:300],
                       'rc': (re.search(r'rc=(\d+)', first) or [None, None])[1]}
json.dump(m, open(p, 'w'), indent=1, sort_keys=True)
PY
done
