"""Verification library for /verif: solver-based checking of pybufrkit (see DESIGN.md)."""
