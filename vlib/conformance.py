"""
Concrete conformance sweep: bitstring *model* vs. the real bitstring (DESIGN 2.1).

This is model validation, not a deciding step.  It drives the real
pybufrkit.bitops classes once over the real library and once over the model
with the same concrete operations and compares results, positions, produced
bits and exception classes.  Any disagreement is a harness error (exit 3).

Run in a fresh process:  python -m vlib.conformance
"""
import importlib
import json
import os
import sys

VERIF_DIR = os.path.dirname(os.path.dirname(os.path.abspath(__file__)))
REPO_DIR = os.environ.get('VERIF_REPO', '/repo')


def _load(which):
    """Fresh copy of pybufrkit.bitops bound to the real library or to the model."""
    for k in [k for k in sys.modules if k == 'bitstring' or k.startswith('bitstring.')]:
        del sys.modules[k]
    if which == 'model':
        import vlib.model.bitstring as M
        sys.modules['bitstring'] = M
    else:
        import bitstring  # noqa
        assert not getattr(sys.modules['bitstring'], '__model__', False)
    return sys.modules['bitstring']


def _outcome(f):
    try:
        return ('ok', f())
    except Exception as e:  # noqa
        from pybufrkit.errors import BitReadError
        if isinstance(e, BitReadError):
            return ('BitReadError',)
        return (type(e).__name__ if type(e).__module__ == 'builtins' else
                [c.__name__ for c in type(e).__mro__ if c.__module__ == 'builtins'][0],)


def _bits_of(writer, lib):
    return writer.bit_stream.bin if not isinstance(writer.bit_stream.bin, str) or True else None


def _script_writer(ops):
    """Run write ops on a BitStringBitWriter; returns (outcomes, final bits)."""
    from pybufrkit import bitops
    w = bitops.BitStringBitWriter()
    outs = []
    for op in ops:
        name, args = op[0], op[1:]
        outs.append(_outcome(lambda: getattr(w, name)(*args)))
        outs.append(('pos', w.get_pos()))
    b = w.bit_stream.bin
    outs.append(('bits', b if isinstance(b, str) else repr(b)))
    if w.get_pos() % 8 == 0:
        outs.append(_outcome(w.to_bytes))
    else:
        outs.append(_outcome(w.to_bytes))
    return outs


def _script_reader(data, ops):
    from pybufrkit import bitops
    r = bitops.BitStringBitReader(data)
    outs = []
    for op in ops:
        name, args = op[0], op[1:]
        outs.append(_outcome(lambda: getattr(r, name)(*args)))
        outs.append(('pos', r.get_pos()))
    return outs


def cases():
    W, R = [], []
    for off in range(8):
        pre = [('write_bin', '1' * off)] if off else []
        for n in list(range(1, 66)):
            vals = sorted({0, 1, (1 << (n - 1)), (1 << n) - 2, (1 << n) - 1, (1 << n), -1} - {None})
            for v in vals:
                W.append(pre + [('write_uint', v, n), ('write_bool', True)])
            for v in (0, 1, -1, (1 << (n - 1)) - 1, -((1 << (n - 1)) - 1), (1 << (n - 1))):
                if n >= 2:
                    W.append(pre + [('write_int', v, n)])
        for nb, val in [(0, b''), (1, b'a'), (2, b'a'), (2, b'abc'), (3, b'\xff\x00 '), (None, b'xy'), (2, 'é'), (1, 'ab')]:
            W.append(pre + [('write_bytes', val, nb)])
        W.append(pre + [('skip', 0)])
        W.append(pre + [('skip', 5), ('skip', 16)])
        W.append(pre + [('write_bin', ''), ('write_bin', '0101')])
        W.append(pre + [('write_bool', False), ('write_bool', 1), ('write_bool', 0)])
        # in-place overwrite
        for n in (1, 3, 8, 12, 16, 24, 32):
            for v in (0, 1, (1 << n) - 1, 1 << n):
                W.append(pre + [('write_uint', 0, 40), ('set_uint', v, n, off + 4), ('write_bool', True)])
                W.append(pre + [('write_uint', (1 << 40) - 1, 40), ('set_uint', v, n, off + 8)])
    W.append([('write', 5, 'uint', 7), ('write', b'ab', 'bytes', 16), ('write', True, 'bool', 1), ('write', '0110', 'bin', 4),
              ('write', -3, 'int', 5)])
    data = bytes(range(7, 7 + 24)) + b'\xff' * 12
    for off in range(8):
        pre = [('read_bin', off)] if off else []
        for n in range(0, 66):
            R.append((data, pre + [('read_uint', n), ('read_bool',)]))
            R.append((data, pre + [('read_uint_or_none', n)] if n else pre))
            if n >= 2:
                R.append((data, pre + [('read_int', n)]))
        for nb in (0, 1, 2, 5, 40):
            R.append((data, pre + [('read_bytes', nb), ('read_uint', 3)]))
        R.append((data, pre + [('read_bin', 0), ('read_bin', 13), ('read_bin', 400)]))
        R.append((data[:2], pre + [('read_uint', 9), ('read_uint', 9), ('read_bool',)]))
        R.append((b'\xff\xff\xff\xff', pre + [('read_uint_or_none', 1), ('read_uint_or_none', 2), ('read_uint_or_none', 9),
                                              ('read_uint_or_none', 16)]))
    R.append((data, [('read', 'uint', 7), ('read', 'bytes', 16), ('read', 'bool', 1), ('read', 'bin', 4), ('read', 'int', 5)]))
    return W, R


def run(which):
    _load(which)
    for k in [k for k in sys.modules if k.startswith('pybufrkit.bitops')]:
        del sys.modules[k]
    W, R = cases()
    out = []
    for ops in W:
        out.append(_script_writer(ops))
    for data, ops in R:
        out.append(_script_reader(data, ops))
    return out


def _norm(x):
    return json.loads(json.dumps(x, default=lambda o: o.hex() if isinstance(o, bytes) else repr(o)))


def main():
    sys.path.insert(0, VERIF_DIR)
    sys.path.insert(0, REPO_DIR)
    real = _norm(run('real'))
    model = _norm(run('model'))
    W, R = cases()
    n = len(real)
    bad = []
    for i, (a, b) in enumerate(zip(real, model)):
        if a != b:
            ops = W[i] if i < len(W) else R[i - len(W)]
            bad.append({'case': repr(ops)[:300], 'real': a, 'model': b})
    res = {'cases': n, 'disagreements': len(bad), 'first': bad[:5]}
    print('CONFORMANCE:' + json.dumps(res))
    return 0 if not bad else 3


if __name__ == '__main__':
    sys.exit(main())
