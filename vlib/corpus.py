"""
Concrete conformance sweep of the FM-94 reference (vlib/fm94.py) against the
real decoder on every message of tests/data and tests/benchmark_data
(DESIGN 2.5).  Model validation: the corpus has no free variable, so nothing
here is decided by a solver; the counts are reported under
``concrete_conformance`` in the evidence.

  python -m vlib.corpus            prints CORPUS:{...}
"""
import glob
import json
import os
import sys

REPO_DIR = os.environ.get('VERIF_REPO', '/repo')


class ConcreteCtx(object):
    mode = 'concrete'

    def concrete(self, x, lo, hi):
        return x

    def witness(self, tag):
        pass

    def assume(self, cond):
        pass


class ByteBits(object):
    def __init__(self, data):
        self.data = data

    def peek(self, pos, n):
        if n == 0:
            return 0
        first, last = pos // 8, (pos + n - 1) // 8
        chunk = int.from_bytes(self.data[first:last + 1], 'big')
        total = (last - first + 1) * 8
        if (last + 1) > len(self.data):
            raise IndexError('past end')
        return (chunk >> (total - (pos - first * 8) - n)) & ((1 << n) - 1)

    def peek_bytes(self, pos, nbytes):
        return bytes(self.peek(pos + 8 * k, 8) for k in range(nbytes))


def corpus_files():
    """thorough: every file; quick: tests/data plus a seeded sample of 25 benchmark files, each <= 300 kB."""
    out = sorted(glob.glob(os.path.join(REPO_DIR, 'tests/data', '*.bufr')))
    bench = sorted(glob.glob(os.path.join(REPO_DIR, 'tests/benchmark_data', '*.bufr')))
    if os.environ.get('VERIF_TIER', 'quick') != 'thorough':
        import random
        r = random.Random(int(os.environ.get('VERIF_SEED', '0') or 0))
        bench = sorted(r.sample(bench, min(25, len(bench))))
        out = [f for f in out + bench if os.path.getsize(f) <= 300000]
    else:
        out = out + bench
    # the file that carries in-stream table definitions goes last (it changes process-global table state)
    out.sort(key=lambda f: os.path.basename(f) == 'prepbufr.bufr')
    return out


def check_file(path, decoder, fm94, generate_bufr_message):
    """Returns (n_messages, n_values, problems)."""
    from pybufrkit.errors import PyBufrKitError
    data = open(path, 'rb').read()
    problems = []
    n_msg = n_val = 0
    try:
        messages = list(generate_bufr_message(decoder, data))
    except (PyBufrKitError, NotImplementedError, AssertionError) as e:  # documented unsupported content
        return 0, 0, [], 'decoder: %s' % type(e).__name__
    for m in messages:
        n_msg += 1
        key = m.table_group_key
        wmo, local = key.wmo_tables_sn, key.local_tables_sn
        tables = fm94.load_tables(int(wmo[2]), (local[1], int(local[2])) if local else None)
        from pybufrkit.tables import TableGroupCacheManager
        cache = TableGroupCacheManager._TABLE_GROUP_CACHE
        inline = False
        if cache.extra_b_entries or cache.extra_d_entries:
            # in-stream table definitions (C20): the reference gets the same extra entries
            B, D = dict(tables[0]), dict(tables[1])
            for k, v in cache.extra_b_entries.items():
                B[int(k)] = (v[0], v[1], v[2], v[3], v[4])
            for k, v in cache.extra_d_entries.items():
                D[int(k)] = [int(x) for x in v[1]]
            tables, inline = (B, D), True
        sec4 = [s for s in m.sections if s.get_metadata('index') == 4][0]
        start = sec4.get_metadata('bitpos_start') + 32
        bits = ByteBits(m.serialized_bytes)
        td = m.template_data.value
        n_subsets = m.n_subsets.value
        compressed = bool(m.is_compressed.value)
        try:
            ref = fm94.reference_decode(ConcreteCtx(), m.unexpanded_descriptors.value, bits, n_subsets=n_subsets,
                                        compressed=compressed, pos=start, tables=tables, max_factor=1 << 30,
                                        inline_sequences=inline)
        except (fm94.RefMalformed, fm94.RefUnsupported) as e:
            problems.append({'file': os.path.basename(path), 'what': 'reference rejects a message the decoder accepts',
                             'why': str(e)})
            continue
        for s in range(n_subsets):
            d = fm94.compare_subset([str(x) for x in td.decoded_descriptors_all_subsets[s]],
                                    td.decoded_values_all_subsets[s], td.bitmap_links_all_subsets[s], ref.outs[s])
            n_val += len(td.decoded_values_all_subsets[s])
            if d:
                d['file'] = os.path.basename(path)
                d['subset'] = s
                problems.append(json.loads(json.dumps(d, default=repr)))
                break
        end = sec4.get_metadata('bitpos_start') + sec4.section_length.value * 8
        if ref.pos > end:
            problems.append({'file': os.path.basename(path), 'what': 'reference reads past the data section'})
    return n_msg, n_val, problems, None


def run():
    sys.path.insert(0, REPO_DIR)
    from pybufrkit.decoder import Decoder, generate_bufr_message
    from vlib import fm94
    decoder = Decoder()
    files = corpus_files()
    tot_m = tot_v = 0
    problems, skipped = [], []
    for f in files:
        n_m, n_v, pr, skip = check_file(f, decoder, fm94, generate_bufr_message)
        tot_m += n_m
        tot_v += n_v
        problems.extend(pr)
        if skip:
            skipped.append([os.path.basename(f), skip])
    return {'name': 'fm94_reference_vs_decoder_on_corpus', 'files': len(files), 'cases': tot_m, 'values_compared': tot_v,
            'disagreements': len(problems), 'first': problems[:5], 'skipped': skipped}


def conformance():
    """Run in a fresh process (real bitstring) and return the result dict."""
    import subprocess
    from vlib import driver
    env = dict(os.environ)
    env['PYTHONPATH'] = driver.VERIF_DIR + os.pathsep + REPO_DIR
    env['PYTHONDONTWRITEBYTECODE'] = '1'
    p = subprocess.run([driver.PY, '-m', 'vlib.corpus'], cwd=driver.VERIF_DIR, env=env, stdout=subprocess.PIPE,
                       stderr=subprocess.PIPE, timeout=1800)
    for line in p.stdout.decode().splitlines():
        if line.startswith('CORPUS:'):
            return json.loads(line[7:])
    return {'name': 'fm94_reference_vs_decoder_on_corpus', 'cases': 0, 'disagreements': -1,
            'first': [p.stderr.decode()[-800:]]}


if __name__ == '__main__':
    print('CORPUS:' + json.dumps(run(), default=repr))
