"""
Harness context: the one place where a harness obtains its inputs.

* ExploreCtx - inputs are solver variables (CrossHair symbolics / lazy bit
  sources); the real bitops classes run over the bitstring *model*.
* ReplayCtx  - inputs are the concrete values of a counterexample record; the
  real bitops classes run over the real ``bitstring``.  The same harness code
  is executed; only a violation that shows up again here is reported.
"""
import z3

from vlib import symcore as sc
from crosshair.tracers import NoTracing


class BaseCtx(object):
    mode = None

    def __init__(self, params=None):
        self.params = params or {}
        self.witness_tags = set()
        self.notes = {}
        # choices pinned by the job (splits one exploration into parallel jobs): {choice name: value}
        self.fixed_choices = dict(self.params.get('fixed_choices') or {})

    def witness(self, tag):
        """Reachability witness: a feasible path reached this point."""
        self.witness_tags.add(tag)

    def note(self, key, value):
        """Attach something to the counterexample record (realised on failure)."""
        self.notes[key] = value


class ExploreCtx(BaseCtx):
    mode = 'explore'

    def __init__(self, params=None):
        BaseCtx.__init__(self, params)
        self.vars = []       # (name, kind, term)
        self.sources = []    # (label, Source)

    # ---- scalar inputs
    def int(self, name, lo, hi):
        v = sc.fresh_int('v_' + name, lo, hi)
        self.vars.append((name, 'int', v))
        return sc.wrap(v)

    def bool(self, name):
        v = sc.fresh_int('v_' + name, 0, 1)
        self.vars.append((name, 'bool', v))
        return sc.wrap_bool(v == 1)

    def choice(self, name, n):
        """A concrete index 0..n-1, chosen by forking (every choice explored)."""
        if name in self.fixed_choices:
            if not 0 <= self.fixed_choices[name] < n:
                sc.prune()
            return self.fixed_choices[name]
        v = sc.fresh_int('v_' + name, 0, n - 1)
        self.vars.append((name, 'int', v))
        with NoTracing():
            return sc.concretize(v, 0, n - 1)

    def concrete(self, x, lo, hi):
        """Fork a symbolic int to a concrete value within lo..hi (prune outside)."""
        with NoTracing():
            return sc.concretize(sc.unwrap(x), lo, hi)

    def assume(self, cond):
        if not cond:
            sc.prune()

    def str(self, name, maxlen, alphabet):
        """A string of length 0..maxlen over the alphabet, built by forking (finite domain)."""
        n = self.choice(name + '_len', maxlen + 1)
        chars = []
        for i in range(n):
            k = self.choice('%s_%d' % (name, i), len(alphabet))
            chars.append(alphabet[k])
        return ''.join(chars)

    def symstr(self, name, maxlen, alphabet):
        """A CrossHair symbolic str (solver sequence) of length <= maxlen over the alphabet."""
        from crosshair.core import proxy_for_type
        with NoTracing():
            s = proxy_for_type(str, 'v_' + name)
        self.vars.append((name, 'str', s))
        if len(s) > maxlen:
            sc.prune()
        for ch in s:
            if ch not in alphabet:
                sc.prune()
        return s

    # ---- bit streams
    def source(self, label, nbits, **opts):
        from vlib.model import bitstring as M
        src = M.Source.lazy(label, nbits, **opts)
        self.sources.append((label, src))
        return SymSourceHandle(src, label)

    def source_from_parts(self, label, parts, **opts):
        from vlib.model import bitstring as M
        src = M.Source.from_parts(parts, **opts)
        self.sources.append((label, src))
        return SymSourceHandle(src, label)

    def reader(self, handle):
        from pybufrkit.bitops import BitStringBitReader
        return BitStringBitReader(handle.src)

    def writer(self):
        from pybufrkit.bitops import BitStringBitWriter
        return BitStringBitWriter()

    def written_fields(self, writer):
        """Canonical content of a writer: list of (nbits, value term)."""
        with NoTracing():
            return [(seg.n, sc.wrap(seg.val if seg.val is not None else _val_of(seg)))
                    for seg in writer.bit_stream._st.segs]

    def written_bits(self, writer):
        with NoTracing():
            st = writer.bit_stream._st
            return [sc.wrap(b) for b in st.bit_terms(0, st.length)]

    def source_of_written(self, label, writer, **opts):
        """A readable source over what a writer produced (encode -> decode round trips)."""
        from vlib.model import bitstring as M
        st = M.Store()
        st.extend(writer.bit_stream._st)
        st.opts = opts
        src = M.Source(st)
        return SymSourceHandle(src, label)

    def input_from(self, items, **opts):
        """A bytes-like input (SymBytes) made of writers' output, source handles and literal bytes."""
        from vlib.model import bitstring as M
        from vlib.symbytes import SymBytes
        with NoTracing():
            st = M.Store()
            for it in items:
                if isinstance(it, (bytes, bytearray)):
                    for byte in bytes(it):
                        st.append(M.Seg(8, byte))
                elif isinstance(it, SymSourceHandle):
                    st.extend(it.src.store)
                elif isinstance(it, SymBytes):
                    st.extend(it.store)
                elif isinstance(it, sc.SymSeq):
                    for t in it.items:
                        st.append(M.Seg(8, t))
                else:   # a BitStringBitWriter over the model
                    st.extend(it.bit_stream._st)
            st.opts = opts
            if st.length % 8:
                raise ValueError('input_from: not a whole number of octets')
            return SymBytes(st)

    # ---- counterexample
    def realize_record(self, ret):
        rec = {'violation': sc.realize_any(ret), 'inputs': {}, 'sources': {}, 'notes': {}}
        for name, kind, term in self.vars:
            if kind == 'str':
                from crosshair.core import deep_realize
                rec['inputs'][name] = deep_realize(term)
                continue
            v = sc.model_value(term)
            rec['inputs'][name] = bool(v) if kind == 'bool' else v
        with NoTracing():
            for label, src in self.sources:
                bits = {}
                pos = 0
                for seg in src.store.segs:
                    if hasattr(seg, 'vars'):
                        for k, var in seg.vars.items():
                            bits[pos + k] = sc.model_value(var)
                    pos += seg.n
                rec['sources'][label] = {'nbits': src.store.length,
                                         'ones': sorted(k for k, b in bits.items() if b),
                                         'touched': len(bits)}
        for k, v in self.notes.items():
            rec['notes'][k] = _jsonable(sc.realize_any(v))
        rec['violation'] = _jsonable(rec['violation'])
        return rec


def _val_of(seg):
    from vlib.model.bitstring import _sum_bits
    return _sum_bits(seg.get_bits())


def _jsonable(x):
    if isinstance(x, bytes):
        return {'__bytes__': x.hex()}
    if isinstance(x, (list, tuple)):
        return [_jsonable(i) for i in x]
    if isinstance(x, dict):
        return {str(k): _jsonable(v) for k, v in x.items()}
    if isinstance(x, (int, float, str, bool)) or x is None:
        return x
    return repr(x)


def from_jsonable(x):
    if isinstance(x, dict) and '__bytes__' in x:
        return bytes.fromhex(x['__bytes__'])
    if isinstance(x, list):
        return [from_jsonable(i) for i in x]
    if isinstance(x, dict):
        return {k: from_jsonable(v) for k, v in x.items()}
    return x


class SymSourceHandle(object):
    """Harness-side handle on an input bit stream (symbolic)."""

    def __init__(self, src, label):
        self.src = src
        self.label = label

    def peek(self, pos, n):
        """Oracle access: unsigned value of bits [pos, pos+n)."""
        with NoTracing():
            if n == 0:
                return 0
            return sc.wrap(self.src.store.value(pos, n))

    def peek_bytes(self, pos, nbytes):
        with NoTracing():
            terms = [self.src.store.value(pos + 8 * k, 8) for k in range(nbytes)]
            if any(isinstance(t, z3.ExprRef) for t in terms):
                return sc.SymSeq(terms)
            return bytes(terms)

    def set_limit(self, limit):
        with NoTracing():
            self.src.store.limit = sc.unwrap(limit)

    @property
    def nbits(self):
        return self.src.store.length


class ConcreteSourceHandle(object):
    """Harness-side handle on an input bit stream (replay: concrete bits)."""

    def __init__(self, label, nbits, ones, parts=None):
        self.label = label
        self._nbits = nbits
        bits = bytearray((nbits + 7) // 8)
        for k in ones:
            bits[k // 8] |= 0x80 >> (k % 8)
        self.data = bytes(bits)
        self.limit = None

    def _bit(self, k):
        return (self.data[k // 8] >> (7 - k % 8)) & 1

    def peek(self, pos, n):
        v = 0
        for k in range(pos, pos + n):
            v = (v << 1) | self._bit(k)
        return v

    def peek_bytes(self, pos, nbytes):
        return bytes(self.peek(pos + 8 * k, 8) for k in range(nbytes))

    def set_limit(self, limit):
        self.limit = limit

    @property
    def nbits(self):
        return self._nbits


class ReplayCtx(BaseCtx):
    mode = 'replay'

    def __init__(self, record, params=None):
        BaseCtx.__init__(self, params)
        self.record = record

    def int(self, name, lo, hi):
        return self.record['inputs'][name]

    def bool(self, name):
        return bool(self.record['inputs'][name])

    def choice(self, name, n):
        if name in self.fixed_choices:
            if not 0 <= self.fixed_choices[name] < n:
                raise ReplayOutOfBound()
            return self.fixed_choices[name]
        return self.record['inputs'][name]

    def concrete(self, x, lo, hi):
        if not (lo <= x <= hi):
            raise ReplayOutOfBound()
        return x

    def assume(self, cond):
        if not cond:
            raise ReplayOutOfBound()

    def str(self, name, maxlen, alphabet):
        n = self.choice(name + '_len', maxlen + 1)
        return ''.join(alphabet[self.choice('%s_%d' % (name, i), len(alphabet))] for i in range(n))

    def symstr(self, name, maxlen, alphabet):
        s = self.record['inputs'][name]
        if len(s) > maxlen or any(c not in alphabet for c in s):
            raise ReplayOutOfBound()
        return s

    def source(self, label, nbits, **opts):
        s = self.record['sources'].get(label, {'nbits': nbits, 'ones': []})
        return ConcreteSourceHandle(label, nbits, s['ones'])

    def source_from_parts(self, label, parts, **opts):
        # rebuild concrete bytes: concrete parts as they are, lazy parts from the record
        s = self.record['sources'].get(label, {'ones': []})
        ones = set(s['ones'])
        bits = []
        for p in parts:
            if isinstance(p, (bytes, bytearray)):
                for byte in bytes(p):
                    bits.extend((byte >> (7 - k)) & 1 for k in range(8))
            elif p[0] == 'lazy':
                base = len(bits)
                bits.extend(1 if (base + k) in ones else 0 for k in range(p[2]))
            elif p[0] == 'val':
                v, n = p[1], p[2]
                bits.extend((v >> (n - 1 - k)) & 1 for k in range(n))
        return ConcreteSourceHandle(label, len(bits), [k for k, b in enumerate(bits) if b])

    def reader(self, handle):
        from pybufrkit.bitops import BitStringBitReader
        data = handle.data
        if handle.limit is not None:
            # truncation at a bit position: real bitstring is byte-granular; harnesses
            # that truncate use byte limits (limit is in bits, multiple of 8)
            data = data[:handle.limit // 8]
        return BitStringBitReader(data)

    def writer(self):
        from pybufrkit.bitops import BitStringBitWriter
        return BitStringBitWriter()

    def written_fields(self, writer):
        # real bitstring has no field structure: compare as bits
        return self.written_bits(writer)

    def written_bits(self, writer):
        return [int(c) for c in writer.bit_stream.bin]

    def source_of_written(self, label, writer, **opts):
        b = writer.bit_stream.bin
        return ConcreteSourceHandle(label, len(b), [k for k, c in enumerate(b) if c == '1'])

    def input_from(self, items, **opts):
        out = b''
        for it in items:
            if isinstance(it, (bytes, bytearray)):
                out += bytes(it)
            elif isinstance(it, ConcreteSourceHandle):
                out += it.data if it.limit is None else it.data[:it.limit // 8]
            else:
                out += it.to_bytes()
        return out

    def realize_record(self, ret):
        return {'violation': _jsonable(ret), 'notes': {k: _jsonable(v) for k, v in self.notes.items()}}


class ReplayOutOfBound(Exception):
    pass
