"""
Property-level driver: runs harness jobs (one process each, in parallel),
replays counterexamples on the real library, applies the known-findings file,
writes the evidence file and prints the interface lines (DESIGN 2.7, 2.8).

Exit codes: 0 property held on everything explored (known findings are
printed); 1 reproduced violation outside the known-findings file; 3 harness
error or inconclusive core harness (the check is broken, not green).
"""
import concurrent.futures
import fnmatch
import hashlib
import json
import os
import subprocess
import sys
import time

VERIF_DIR = os.path.dirname(os.path.dirname(os.path.abspath(__file__)))
REPO_DIR = os.environ.get('VERIF_REPO', '/repo')
PY = os.path.join(VERIF_DIR, '.venv', 'bin', 'python')
OUT_DIR = os.environ.get('VERIF_OUT_DIR', VERIF_DIR)   # evidence/ and replays/ live here (scratch runs redirect it)
NPROC = int(os.environ.get('VERIF_JOBS', '0')) or max(2, (os.cpu_count() or 4) - 1)


class Job(object):
    def __init__(self, name, module, harness, params=None, timeout=120, path_timeout=30, core=True,
                 mutate=None, witnesses=(), max_cex=6, kind='solver', engine='E1-crosshair', bounds=None):
        self.name = name
        self.module = module
        self.harness = harness
        self.params = params or {}
        self.timeout = timeout
        self.path_timeout = path_timeout
        self.core = core
        self.mutate = mutate       # canary: this mutation must be caught
        self.witnesses = list(witnesses)
        self.max_cex = max_cex
        self.kind = 'canary' if mutate else kind
        self.engine = engine
        self.bounds = bounds
        self.result = None


def _run_proc(cmd, env, wall_timeout):
    t0 = time.time()
    try:
        p = subprocess.run(cmd, cwd=VERIF_DIR, env=env, stdout=subprocess.PIPE, stderr=subprocess.PIPE,
                           timeout=wall_timeout)
        out, err, rc = p.stdout.decode('utf-8', 'replace'), p.stderr.decode('utf-8', 'replace'), p.returncode
    except subprocess.TimeoutExpired as e:
        out = (e.stdout or b'').decode('utf-8', 'replace')
        err = (e.stderr or b'').decode('utf-8', 'replace')
        rc = -9
    res = None
    for line in out.splitlines():
        if line.startswith('RESULT:'):
            try:
                res = json.loads(line[7:])
            except ValueError:
                pass
    if res is None:
        res = {'verdict': 'error', 'errors': ['no result (rc=%s) stderr: %s' % (rc, err[-1500:])]}
    res['proc_wall_s'] = round(time.time() - t0, 2)
    return res


def run_job(job):
    env = dict(os.environ)
    env['PYTHONPATH'] = VERIF_DIR + os.pathsep + REPO_DIR
    env['PYTHONDONTWRITEBYTECODE'] = '1'
    env['PYTHONHASHSEED'] = '0'
    env.pop('VERIF_MUTATE', None)
    if job.mutate:
        env['VERIF_MUTATE'] = job.mutate
    if job.engine == 'E1-crosshair':
        cmd = [PY, '-m', 'vlib.runh', 'explore', job.module, job.harness, '--params', json.dumps(job.params),
               '--timeout', str(job.timeout), '--path-timeout', str(job.path_timeout), '--max-cex', str(job.max_cex)]
    else:  # E2: a python module that discharges SMT obligations itself and prints RESULT:
        cmd = [PY, '-m', job.module, job.harness, '--params', json.dumps(job.params), '--timeout', str(job.timeout)]
    job.result = _run_proc(cmd, env, job.timeout * 1.6 + 60)
    return job


def replay(job, record, path):
    """Re-run the harness concretely on the real library (real bitstring)."""
    env = dict(os.environ)
    env['PYTHONPATH'] = VERIF_DIR + os.pathsep + REPO_DIR
    env['PYTHONDONTWRITEBYTECODE'] = '1'
    env.pop('VERIF_MUTATE', None)
    if job.mutate:
        env['VERIF_MUTATE'] = job.mutate
    if job.engine == 'E1-crosshair':
        cmd = [PY, '-m', 'vlib.runh', 'replay', job.module, job.harness, '--params', json.dumps(job.params),
               '--record', path]
    else:
        cmd = [PY, '-m', job.module, job.harness, '--params', json.dumps(job.params), '--replay', path]
    return _run_proc(cmd, env, 300)


def load_known_findings():
    out = []
    p = os.path.join(VERIF_DIR, 'known_findings.jsonl')
    if os.path.exists(p):
        for line in open(p):
            line = line.strip()
            if line and not line.startswith('#'):
                out.append(json.loads(line))
    return out


def _subset(pattern, obj):
    """pattern is matched as a sub-structure of obj (dict keys subset, scalars equal, '*' wildcard)."""
    if pattern == '*':
        return True
    if isinstance(pattern, dict) and '__any__' in pattern:
        return any(_subset(alt, obj) for alt in pattern['__any__'])     # a finding that manifests at several call sites
    if isinstance(pattern, dict):
        return isinstance(obj, dict) and all(k in obj and _subset(v, obj[k]) for k, v in pattern.items())
    if isinstance(pattern, list):
        return isinstance(obj, list) and len(pattern) == len(obj) and all(_subset(a, b) for a, b in zip(pattern, obj))
    if isinstance(pattern, str) and isinstance(obj, str) and ('*' in pattern or '?' in pattern):
        return fnmatch.fnmatchcase(obj, pattern)
    return pattern == obj


def match_known(findings, pid, job, record):
    for f in findings:
        if f.get('status') != 'known' or f.get('property') != pid:
            continue
        m = f.get('match', {})
        if 'job' in m and not fnmatch.fnmatchcase(job.name, m['job']):
            continue
        if 'params' in m and not _subset(m['params'], job.params):
            continue
        if 'violation' in m and not _subset(m['violation'], record.get('violation')):
            continue
        if 'inputs' in m and not _subset(m['inputs'], record.get('inputs', {})):
            continue
        return f
    return None


def file_hashes(files):
    out = {}
    for rel in files:
        p = os.path.join(REPO_DIR, rel)
        if os.path.isdir(p):
            h = hashlib.sha256()
            for root, _, names in sorted(os.walk(p)):
                for n in sorted(names):
                    h.update(open(os.path.join(root, n), 'rb').read())
            out[rel] = h.hexdigest()[:16]
        elif os.path.exists(p):
            out[rel] = hashlib.sha256(open(p, 'rb').read()).hexdigest()[:16]
        else:
            out[rel] = 'absent'
    return out


def run_conformance():
    env = dict(os.environ)
    env['PYTHONPATH'] = VERIF_DIR + os.pathsep + REPO_DIR
    env['PYTHONDONTWRITEBYTECODE'] = '1'
    p = subprocess.run([PY, '-m', 'vlib.conformance'], cwd=VERIF_DIR, env=env, stdout=subprocess.PIPE,
                       stderr=subprocess.PIPE, timeout=600)
    for line in p.stdout.decode().splitlines():
        if line.startswith('CONFORMANCE:'):
            return json.loads(line[12:])
    return {'cases': 0, 'disagreements': -1, 'first': [p.stderr.decode()[-800:]]}


def run_property(pid, meta, jobs, tier, seed, extra_conformance=None, needs_model=True):
    os.environ['VERIF_TIER'] = tier
    os.environ['VERIF_SEED'] = str(seed)
    """
    meta: dict(level, functions, files, bounds, assumptions, outside, trusted_base)
    jobs: list of Job
    extra_conformance: optional callable returning a dict {'name':..., 'cases':..., 'disagreements':..., 'first': [...]}
    """
    t0 = time.time()
    os.makedirs(os.path.join(OUT_DIR, 'evidence'), exist_ok=True)
    os.makedirs(os.path.join(OUT_DIR, 'replays'), exist_ok=True)
    findings = load_known_findings()
    harness_errors = []
    conformance = {}
    if needs_model:
        c = run_conformance()
        conformance['bitstring_model_vs_real'] = c
        if c.get('disagreements') != 0:
            harness_errors.append('bitstring model disagrees with the real library: %s' % json.dumps(c)[:600])
    if extra_conformance:
        for fn in extra_conformance:
            c = fn()
            conformance[c.pop('name')] = c
            if c.get('disagreements') != 0:
                harness_errors.append('concrete conformance failed: %s' % json.dumps(c)[:800])

    with concurrent.futures.ThreadPoolExecutor(max_workers=NPROC) as ex:
        list(ex.map(run_job, jobs))

    violations, known_hits, inconclusive, confirmed = [], [], [], []
    samples = []
    tot = {'paths': 0, 'queries': 0, 'solver_s': 0.0, 'forks': 0, 'realizations': 0, 'cpu_s': 0.0}
    replays_done = 0
    for job in jobs:
        r = job.result
        v = r.get('verdict')
        c = r.get('counters', {})
        tot['paths'] += r.get('paths', 0)
        tot['queries'] += c.get('solver_queries', 0) + r.get('smt_queries', 0)
        tot['solver_s'] += c.get('solver_seconds', 0.0) + r.get('smt_seconds', 0.0)
        tot['forks'] += c.get('forks', 0)
        tot['realizations'] += c.get('realizations', 0)
        tot['cpu_s'] += r.get('cpu_s', 0.0)
        summary = {'job': job.name, 'harness': job.module + '.' + job.harness, 'params': job.params, 'kind': job.kind,
                   'verdict': v, 'paths': r.get('paths'), 'paths_ok': r.get('paths_ok'),
                   'paths_pruned': r.get('paths_pruned'), 'paths_unknown': r.get('paths_unknown'),
                   'solver_queries': c.get('solver_queries', r.get('smt_queries')),
                   'solver_seconds': c.get('solver_seconds', r.get('smt_seconds')),
                   'realizations': c.get('realizations'), 'witnesses': r.get('witnesses'),
                   'cpu_s': r.get('cpu_s'), 'bounds': job.bounds}
        if r.get('obligations') is not None:
            summary['obligations'] = r.get('obligations')
        if job.kind == 'canary':
            summary['mutation'] = job.mutate
            # a canary must flip to a reproduced counterexample
            caught = False
            if v == 'counterexample' and r.get('cex'):
                path = os.path.join(OUT_DIR, 'replays', 'tmp', '%s-%s-canary.json' % (pid, _h(job.name)))
                os.makedirs(os.path.dirname(path), exist_ok=True)
                json.dump(r['cex'][0], open(path, 'w'))
                rr = replay(job, r['cex'][0], path)
                replays_done += 1
                caught = bool(rr.get('reproduced'))
                os.remove(path)
            summary['canary_caught'] = caught
            if not caught:
                harness_errors.append('canary %s not caught (verdict %s %s)' % (job.name, v, (r.get('errors') or [''])[0][:300]))
            samples.append(summary)
            continue
        if v == 'confirmed':
            missing = [w for w in job.witnesses if not (r.get('witnesses') or {}).get(w)]
            if missing:
                harness_errors.append('job %s confirmed but reachability witnesses %s were never hit' % (job.name, missing))
                summary['verdict'] = 'vacuous'
            else:
                confirmed.append(job.name)
        elif v == 'counterexample':
            n_rep = 0
            for k, rec in enumerate(r.get('cex', [])):
                blob = json.dumps({'property': pid, 'job': job.name, 'module': job.module, 'harness': job.harness,
                                   'params': job.params, 'engine': job.engine, 'record': rec}, sort_keys=True)
                path = os.path.join(OUT_DIR, 'replays', '%s-%s.json' % (pid, _h(blob)))
                json.dump(rec, open(path + '.rec', 'w'))
                rr = replay(job, rec, path + '.rec')
                replays_done += 1
                os.remove(path + '.rec')
                if not rr.get('reproduced'):
                    harness_errors.append('counterexample of %s does not reproduce on the real library: %s | replay: %s'
                                          % (job.name, json.dumps(rec)[:500], json.dumps(rr)[:400]))
                    continue
                n_rep += 1
                kf = match_known(findings, pid, job, rec)
                if kf is not None:
                    known_hits.append((kf, job.name))
                else:
                    open(path, 'w').write(blob)
                    violations.append((job.name, path, rec))
            summary['reproduced'] = n_rep
        else:
            inconclusive.append(job.name)
            summary['errors'] = [e[:400] for e in (r.get('errors') or [])[:2]]
            summary['unknown_reasons'] = r.get('unknown_reasons')
            if job.core:
                harness_errors.append('core job %s is %s: %s' % (job.name, v, json.dumps(summary['errors'])[:500]))
        samples.append(summary)

    # ---- report
    printed = set()
    for kf, jobname in known_hits:
        key = kf.get('id')
        if key not in printed:
            printed.add(key)
            print('KNOWN-FINDING: property=%s %s [%s] (hit by %s)' % (pid, kf.get('what'), kf.get('id'), jobname))
    seen = set()
    for jobname, path, rec in violations:
        v = rec.get('violation')
        key = (jobname, v.get('what') if isinstance(v, dict) else json.dumps(v)[:80])
        if key in seen:
            continue   # same kind of violation from the same harness: one line is enough (all replays are kept)
        seen.add(key)
        print('VIOLATION property=%s replay=%s' % (pid, path))
        print('  job=%s violation=%s' % (jobname, json.dumps(v)[:600]))
    for e in harness_errors:
        print('HARNESS-ERROR: ' + e, file=sys.stderr)

    solver_jobs = [j for j in jobs if j.kind != 'canary']
    n_nontrivial = len({s['job'] for s in samples if s.get('verdict') == 'confirmed' and ((s.get('paths') or 0) >= 2 or (s.get('obligations') or 0) >= 1)})
    ev = {
        'property_id': pid,
        'tier': tier,
        'seed': seed,
        'level': meta.get('level', 'model_checking'),
        'coverage': {
            'states': max(1, tot['paths']),
            'transitions': max(1, tot['forks'] + tot['queries']),
            'traces_validated_against_impl': replays_done + sum(v.get('cases', 0) for v in conformance.values()),
            'evaluations': max(1, len(solver_jobs)),
            'distinct_nontrivial': n_nontrivial,
            'rule': ('one evaluation = one solver-decided harness run (symbolic execution of the real functions with z3 '
                     'deciding every branch, all paths explored within the stated bounds, or a batch of direct SMT '
                     'obligations); distinct and non-trivial = distinct (harness, parameters) with verdict "confirmed" '
                     'and at least 2 explored paths or 1 discharged obligation'),
            'samples': samples[:400],
            'exhaustive': False,
            'technique': 'solver-based bounded checking of the real code (CrossHair/z3 path exploration; direct z3/cvc5 obligations)',
            'functions_encoded': meta.get('functions', []),
            'source_hashes': file_hashes(meta.get('files', [])),
            'bounds': meta.get('bounds', []),
            'outside_the_claim': meta.get('outside', []),
            'verdict_counts': {'confirmed': len(confirmed), 'inconclusive': len(inconclusive),
                               'jobs_with_reproduced_counterexamples': len({v[0] for v in violations}) + len({k[1] for k in known_hits}),
                               'canaries_caught': sum(1 for s in samples if s.get('canary_caught')),
                               'canaries': sum(1 for j in jobs if j.kind == 'canary')},
            'inconclusive_jobs': inconclusive,
            'paths_explored': tot['paths'],
            'solver_queries': tot['queries'],
            'solver_seconds': round(tot['solver_s'], 2),
            'realizations': tot['realizations'],
            'cpu_seconds': round(tot['cpu_s'], 1),
            'concrete_conformance': conformance,
            'known_findings_hit': sorted({k[0].get('id') for k in known_hits}),
            'harness_errors': harness_errors[:10],
        },
        'assumptions': meta.get('assumptions', []) + ['trusted base: ' + t for t in meta.get('trusted_base', [])],
        'wall_s': round(time.time() - t0, 2),
        'violations': len(violations),
    }
    with open(os.path.join(OUT_DIR, 'evidence', pid + '.json'), 'w') as f:
        json.dump(ev, f, indent=1, default=repr)
    print('SUMMARY property=%s tier=%s jobs=%d confirmed=%d inconclusive=%d violations=%d known=%d paths=%d queries=%d wall=%.0fs'
          % (pid, tier, len(jobs), len(confirmed), len(inconclusive), len(violations), len(printed), tot['paths'],
             tot['queries'], time.time() - t0))
    if violations:
        return 1
    if harness_errors:
        return 3
    return 0


def _h(s):
    return hashlib.sha256(s.encode()).hexdigest()[:12]


def replay_file(path):
    """./check --replay <file>: re-run a stored violation on the current tree."""
    blob = json.load(open(path))
    job = Job(blob['job'], blob['module'], blob['harness'], blob['params'], engine=blob.get('engine', 'E1-crosshair'))
    tmp = path + '.rec'
    json.dump(blob['record'], open(tmp, 'w'))
    try:
        rr = replay(job, blob['record'], tmp)
    finally:
        os.remove(tmp)
    print(json.dumps(rr, indent=1))
    return 1 if rr.get('reproduced') else 0
