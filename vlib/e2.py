"""
Engine E2: direct SMT obligations over the real numeric kernels (DESIGN 2.3).

The kernels are *translated from the current AST* of /repo at every run:

  decoder.Decoder.process_numeric_uncompressed        raw -> value
  encoder.Encoder.process_numeric_uncompressed        value -> raw
  encoder.Encoder.process_numeric_compressed          (its two scaling sites)
  encoder.nbits_for_uint                              (by unrolling on the bit length)

Python ints become 64-bit signed bit-vectors (ranges are asserted so nothing
wraps), Python floats IEEE-754 binary64 with round-nearest-even, round() is
fp.roundToIntegral RNE.  Obligations (negated, so unsat = holds):

  L1  grid exactness      for every integer n in the class's range:
                          enc_kernel(dec_kernel(n)) == n
  L2  kernel equivalence  for every double v: enc_kernel(v) == rti_RNE(v*sp) - ref
                          (rounds: does not truncate, floor or round half up)
  L3  half-unit bound     |dec(enc(v)) - v| <= fl(0.5/sp) * (1 + 2^-40)   (thorough; may be inconclusive)
  N1  nbits_for_uint(x) is the least w with x <= 2^w - 2, for x of up to 64 bits

Back ends: cvc5 binary (primary for FP), z3 Python API (cross-check / integers).
A sat answer is turned into concrete values and replayed on the real functions.

  python -m vlib.e2 <set> --params JSON [--timeout S] | --replay FILE
"""
import argparse
import ast
import json
import os
import subprocess
import sys
import tempfile
import time

import z3

REPO_DIR = os.environ.get('VERIF_REPO', '/repo')
FP = z3.Float64()
RNE = z3.RNE()
BV = 64


class Untranslatable(Exception):
    pass


# ----------------------------------------------------------------------------- AST access

def _func_ast(relpath, clsname, fname):
    src = open(os.path.join(REPO_DIR, relpath)).read()
    mut = os.environ.get('VERIF_MUTATE')
    if mut:   # canary: the same in-memory source mutation the import hook applies
        target, rest = mut.split('::', 1)
        old, new = rest.split('-->>', 1)
        if target.replace('.', '/') + '.py' == relpath:
            if old not in src:
                raise Untranslatable('canary text not found')
            src = src.replace(old, new, 1)
    tree = ast.parse(src)
    for node in tree.body:
        if clsname is None and isinstance(node, ast.FunctionDef) and node.name == fname:
            return node
        if isinstance(node, ast.ClassDef) and node.name == clsname:
            for sub in node.body:
                if isinstance(sub, ast.FunctionDef) and sub.name == fname:
                    return sub
    raise Untranslatable('function %s.%s not found in %s' % (clsname, fname, relpath))


# ----------------------------------------------------------------------------- tiny symbolic interpreter

class V(object):
    """A typed symbolic value: kind in {'int','fp','none','bool','opaque'}."""
    __slots__ = ('kind', 'e')

    def __init__(self, kind, e=None):
        self.kind, self.e = kind, e


def iv(x):
    return V('int', z3.BitVecVal(x, BV) if isinstance(x, int) else x)


def fv(x):
    return V('fp', z3.FPVal(x, FP) if isinstance(x, float) else x)


def to_fp(v):
    if v.kind == 'fp':
        return v.e
    if v.kind == 'int':
        return z3.fpSignedToFP(RNE, v.e, FP)
    raise Untranslatable('to_fp(%s)' % v.kind)


class Interp(object):
    """
    Symbolic evaluation of a straight-line/if subset of Python over V values.
    env maps names (and dotted attribute paths) to V or to python callables
    f(args)->V for modelled calls.
    """

    def __init__(self, env):
        self.env = dict(env)
        self.outputs = []

    def run(self, stmts):
        for st in stmts:
            self.stmt(st)

    # -- statements
    def stmt(self, st):
        if isinstance(st, ast.Expr):
            if isinstance(st.value, ast.Constant):
                return   # docstring
            self.expr(st.value)
        elif isinstance(st, ast.Assign):
            val = self.expr(st.value)
            for t in st.targets:
                self.assign(t, val)
        elif isinstance(st, ast.AugAssign):
            cur = self.expr(st.target)
            val = self.binop(st.op, cur, self.expr(st.value))
            self.assign(st.target, val)
        elif isinstance(st, ast.If):
            c = self.cond(st.test)
            if c is True:
                self.run(st.body)
            elif c is False:
                self.run(st.orelse)
            else:
                a = Interp(self.env)
                a.outputs = self.outputs
                a.run(st.body)
                b = Interp(self.env)
                b.outputs = self.outputs
                b.run(st.orelse)
                for k in set(a.env) | set(b.env):
                    va, vb = a.env.get(k), b.env.get(k)
                    if va is vb:
                        continue
                    if isinstance(va, V) and isinstance(vb, V) and va.kind == vb.kind and va.kind in ('int', 'fp'):
                        self.env[k] = V(va.kind, z3.If(c, va.e, vb.e))
                    else:
                        raise Untranslatable('cannot merge %s across a symbolic branch' % k)
        else:
            raise Untranslatable('statement %s' % type(st).__name__)

    def assign(self, target, val):
        if isinstance(target, ast.Name):
            self.env[target.id] = val
        elif isinstance(target, ast.Attribute):
            self.env[ast.unparse(target)] = val
        elif isinstance(target, ast.Subscript):
            self.env[ast.unparse(target)] = val
        else:
            raise Untranslatable('assignment target %s' % type(target).__name__)

    # -- conditions: python bool when decidable statically, else z3 Bool
    def cond(self, test):
        if isinstance(test, ast.Compare) and len(test.ops) == 1:
            l, r = self.expr(test.left), self.expr(test.comparators[0])
            op = test.ops[0]
            if isinstance(op, (ast.IsNot, ast.Is)):
                same = (l.kind == 'none') == (r.kind == 'none') and (l.kind == 'none')
                if l.kind == 'none' or r.kind == 'none':
                    res = (l.kind == r.kind)
                    return res if isinstance(op, ast.Is) else not res
                raise Untranslatable('is-comparison of non-None values')
            if isinstance(op, (ast.NotEq, ast.Eq)):
                if l.kind == 'fp' or r.kind == 'fp':
                    e = z3.fpEQ(to_fp(l), to_fp(r))
                else:
                    e = l.e == r.e
                e = z3.simplify(e)
                if z3.is_true(e):
                    return isinstance(op, ast.Eq)
                if z3.is_false(e):
                    return isinstance(op, ast.NotEq)
                return e if isinstance(op, ast.Eq) else z3.Not(e)
            raise Untranslatable('comparison %s' % type(op).__name__)
        v = self.expr(test)
        if v.kind == 'int':
            e = z3.simplify(v.e != 0)
            if z3.is_true(e):
                return True
            if z3.is_false(e):
                return False
            return e
        if v.kind == 'none':
            return False
        raise Untranslatable('truth value of %s' % v.kind)

    # -- expressions
    def expr(self, e):
        if isinstance(e, ast.Constant):
            if e.value is None:
                return V('none')
            if isinstance(e.value, bool):
                return iv(int(e.value))
            if isinstance(e.value, int):
                return iv(e.value)
            if isinstance(e.value, float):
                return fv(e.value)
            raise Untranslatable('constant %r' % (e.value,))
        if isinstance(e, ast.Name):
            if e.id not in self.env:
                raise Untranslatable('unknown name %s' % e.id)
            return self.env[e.id]
        if isinstance(e, (ast.Attribute, ast.Subscript)):
            key = ast.unparse(e)
            if key in self.env:
                v = self.env[key]
                return v(self, []) if callable(v) else v
            raise Untranslatable('unknown reference %s' % key)
        if isinstance(e, ast.BinOp):
            return self.binop(e.op, self.expr(e.left), self.expr(e.right))
        if isinstance(e, ast.UnaryOp) and isinstance(e.op, ast.USub):
            v = self.expr(e.operand)
            return iv(-v.e) if v.kind == 'int' else fv(z3.fpNeg(v.e))
        if isinstance(e, ast.Call):
            fn = ast.unparse(e.func)
            args = [self.expr(a) for a in e.args]
            if fn == 'round' and len(args) == 1:
                if args[0].kind == 'int':
                    return args[0]
                return V('fpint', z3.fpRoundToIntegral(RNE, to_fp(args[0])))
            if fn == 'int' and len(args) == 1:
                a = args[0]
                if a.kind == 'int':
                    return a
                if a.kind == 'fpint':
                    return iv(z3.fpToSBV(RNE, a.e, z3.BitVecSort(BV)))
                if a.kind == 'fp':   # int(float) truncates toward zero
                    return iv(z3.fpToSBV(z3.RTZ(), a.e, z3.BitVecSort(BV)))
                raise Untranslatable('int(%s)' % a.kind)
            if fn in self.env and callable(self.env[fn]):
                return self.env[fn](self, args)
            raise Untranslatable('call %s' % fn)
        raise Untranslatable('expression %s' % type(e).__name__)

    def binop(self, op, l, r):
        if l.kind == 'fpint':
            l = fv(l.e)
        if r.kind == 'fpint':
            r = fv(r.e)
        if l.kind == 'int' and r.kind == 'int' and not isinstance(op, ast.Div):
            if isinstance(op, ast.Add):
                return iv(l.e + r.e)
            if isinstance(op, ast.Sub):
                return iv(l.e - r.e)
            if isinstance(op, ast.Mult):
                return iv(l.e * r.e)
            raise Untranslatable('int op %s' % type(op).__name__)
        a, b = to_fp(l), to_fp(r)
        if isinstance(op, ast.Add):
            return fv(z3.fpAdd(RNE, a, b))
        if isinstance(op, ast.Sub):
            return fv(z3.fpSub(RNE, a, b))
        if isinstance(op, ast.Mult):
            return fv(z3.fpMul(RNE, a, b))
        if isinstance(op, ast.Div):
            return fv(z3.fpDiv(RNE, a, b))
        raise Untranslatable('float op %s' % type(op).__name__)


# ----------------------------------------------------------------------------- real-arithmetic (standard model) interpreter

class RealInterp(Interp):
    """
    Same AST subset, but floats are reals under the *standard model* of IEEE-754
    arithmetic: every float operation returns the exact result times (1 + d) with
    |d| <= 2^-53 (fresh d per operation); int -> float is exact below 2^53;
    round() yields an integer k with |k - y| <= 1/2.  Side constraints in .side.
    """
    U = None

    def __init__(self, env, side=None, counter=None):
        Interp.__init__(self, env)
        self.side = side if side is not None else []
        self.counter = counter if counter is not None else [0]

    def _fresh(self, prefix, sort):
        self.counter[0] += 1
        return z3.Const('%s%d' % (prefix, self.counter[0]), sort)

    def _rel(self, exact):
        from fractions import Fraction
        d = self._fresh('d', z3.RealSort())
        u = z3.RealVal(Fraction(1, 2 ** 53))
        self.side.extend([d >= -u, d <= u])
        return V('real', exact * (1 + d))

    def expr(self, e):
        if isinstance(e, ast.Constant) and isinstance(e.value, float):
            from fractions import Fraction
            return V('real', z3.RealVal(Fraction(e.value)))
        if isinstance(e, ast.Constant) and isinstance(e.value, int) and not isinstance(e.value, bool):
            return V('int', z3.IntVal(e.value))
        if isinstance(e, ast.Call):
            fn = ast.unparse(e.func)
            if fn in ('round', 'int') and len(e.args) == 1:
                a = self.expr(e.args[0])
                if fn == 'round':
                    if a.kind == 'int':
                        return a
                    k = self._fresh('k', z3.IntSort())
                    half = z3.RealVal('1/2')
                    self.side.extend([z3.ToReal(k) - a.e <= half, a.e - z3.ToReal(k) <= half])
                    return V('int', k)
                if a.kind == 'int':
                    return a
                raise Untranslatable('int(float) truncation in the real model')
        return Interp.expr(self, e)

    def cond(self, test):
        if isinstance(test, ast.Compare) and len(test.ops) == 1 and isinstance(test.ops[0], (ast.Eq, ast.NotEq)):
            l, r = self.expr(test.left), self.expr(test.comparators[0])
            if l.kind != 'none' and r.kind != 'none':
                le = z3.ToReal(l.e) if l.kind == 'int' else l.e
                re_ = z3.ToReal(r.e) if r.kind == 'int' else r.e
                e = z3.simplify(le == re_)
                if z3.is_true(e):
                    return isinstance(test.ops[0], ast.Eq)
                if z3.is_false(e):
                    return isinstance(test.ops[0], ast.NotEq)
                return e if isinstance(test.ops[0], ast.Eq) else z3.Not(e)
        return Interp.cond(self, test)

    def binop(self, op, l, r):
        if l.kind == 'int' and r.kind == 'int' and not isinstance(op, ast.Div):
            if isinstance(op, ast.Add):
                return V('int', l.e + r.e)
            if isinstance(op, ast.Sub):
                return V('int', l.e - r.e)
            if isinstance(op, ast.Mult):
                return V('int', l.e * r.e)
        a = z3.ToReal(l.e) if l.kind == 'int' else l.e
        b = z3.ToReal(r.e) if r.kind == 'int' else r.e
        if isinstance(op, ast.Add):
            return self._rel(a + b)
        if isinstance(op, ast.Sub):
            return self._rel(a - b)
        if isinstance(op, ast.Mult):
            return self._rel(a * b)
        if isinstance(op, ast.Div):
            return self._rel(a / b)
        raise Untranslatable('op %s' % type(op).__name__)


def lemma_L1_real(scale, N, timeout):
    """
    forall integer n, |n| <= N, and all rounding errors within the standard model:
    enc_kernel(dec_kernel(n)) == n   (kernels translated from the AST, real model).
    """
    from fractions import Fraction
    sp = 1.0 * 10 ** scale
    spq = V('real', z3.RealVal(Fraction(sp)))
    n = z3.Int('n')
    side, counter = [], [0]
    fn = _func_ast('pybufrkit/decoder.py', 'Decoder', 'process_numeric_uncompressed')
    out = []
    env = {
        'refval': V('int', z3.IntVal(0)), 'scale_powered': spq,
        'bit_reader.read_uint_or_none': lambda it, a: V('int', n),
        'state.decoded_descriptors.append': lambda it, a: V('opaque'),
        'state.decoded_values.append': lambda it, a: (out.append(a[0]), V('opaque'))[1],
        'nbits': V('opaque'), 'descriptor': V('opaque'),
    }
    RealInterp(env, side, counter).run(fn.body)
    value = out[0]
    fn2 = _func_ast('pybufrkit/encoder.py', 'Encoder', 'process_numeric_uncompressed')
    out2 = []
    env2 = {
        'refval': V('int', z3.IntVal(0)), 'scale_powered': spq,
        'state.decoded_values[state.idx_value]': value,
        'state.idx_value': V('int', z3.IntVal(0)),
        'state.decoded_descriptors.append': lambda it, a: V('opaque'),
        'bit_writer.write_uint': lambda it, a: (out2.append(a[0]), V('opaque'))[1],
        'nbits': V('opaque'), 'descriptor': V('opaque'),
        'NUMERIC_MISSING_VALUES[nbits]': V('int', z3.IntVal(-1)),
    }
    RealInterp(env2, side, counter).run(fn2.body)
    back = out2[0]
    if back.kind != 'int':
        raise Untranslatable('encoder kernel yields %s in the real model' % back.kind)
    s = z3.Solver()
    s.set('timeout', int(timeout * 1000))
    s.add(n >= -N, n <= N)
    for c in side:
        s.add(c)
    s.add(back.e != n)
    t0 = time.time()
    st = str(s.check())
    dt = time.time() - t0
    model = {}
    if st == 'sat':
        model['n'] = s.model().eval(n, model_completion=True).as_long()
    return {'status': st if st in ('sat', 'unsat') else 'unknown', 'seconds': round(dt, 2), 'model': model,
            'rounding_vars': counter[0]}


def lemma_L3_real(scale, W, timeout):
    """
    forall real v with |v * sp| <= 2^W: dec_kernel(enc_kernel(v)) is within half a unit of the last scaled digit of v,
    i.e. |v' - v| * sp <= 1/2 * (1 + 2^-18)  (the slack covers the two roundings; standard model, kernels from the AST).
    """
    from fractions import Fraction
    sp = 1.0 * 10 ** scale
    spq_val = Fraction(sp)
    spq = V('real', z3.RealVal(spq_val))
    v = z3.Real('v')
    side, counter = [], [0]
    fn2 = _func_ast('pybufrkit/encoder.py', 'Encoder', 'process_numeric_uncompressed')
    out2 = []
    env2 = {
        'refval': V('int', z3.IntVal(0)), 'scale_powered': spq,
        'state.decoded_values[state.idx_value]': V('real', v),
        'state.idx_value': V('int', z3.IntVal(0)),
        'state.decoded_descriptors.append': lambda it, a: V('opaque'),
        'bit_writer.write_uint': lambda it, a: (out2.append(a[0]), V('opaque'))[1],
        'nbits': V('opaque'), 'descriptor': V('opaque'),
        'NUMERIC_MISSING_VALUES[nbits]': V('int', z3.IntVal(-1)),
    }
    RealInterp(env2, side, counter).run(fn2.body)
    q = out2[0]
    if q.kind != 'int':
        raise Untranslatable('encoder kernel yields %s' % q.kind)
    fn = _func_ast('pybufrkit/decoder.py', 'Decoder', 'process_numeric_uncompressed')
    out = []
    env = {
        'refval': V('int', z3.IntVal(0)), 'scale_powered': spq,
        'bit_reader.read_uint_or_none': lambda it, a: q,
        'state.decoded_descriptors.append': lambda it, a: V('opaque'),
        'state.decoded_values.append': lambda it, a: (out.append(a[0]), V('opaque'))[1],
        'nbits': V('opaque'), 'descriptor': V('opaque'),
    }
    RealInterp(env, side, counter).run(fn.body)
    back = out[0]
    be = z3.ToReal(back.e) if back.kind == 'int' else back.e
    s = z3.Solver()
    s.set('timeout', int(timeout * 1000))
    bound = z3.RealVal(Fraction(2 ** W))
    s.add(v * z3.RealVal(spq_val) <= bound, v * z3.RealVal(spq_val) >= -bound)
    for c in side:
        s.add(c)
    tol = z3.RealVal(Fraction(1, 2) * (1 + Fraction(1, 2 ** 18)))
    diff = (be - v) * z3.RealVal(spq_val)
    s.add(z3.Or(diff > tol, diff < -tol))
    t0 = time.time()
    st = str(s.check())
    dt = time.time() - t0
    return {'status': st if st in ('sat', 'unsat') else 'unknown', 'seconds': round(dt, 2), 'model': {},
            'rounding_vars': counter[0]}


# ----------------------------------------------------------------------------- kernels from the AST

def decode_kernel(raw, refval, sp):
    """decoder.Decoder.process_numeric_uncompressed as a function raw -> value (V)."""
    fn = _func_ast('pybufrkit/decoder.py', 'Decoder', 'process_numeric_uncompressed')
    out = []
    env = {
        'refval': iv(refval), 'scale_powered': fv(sp),
        'bit_reader.read_uint_or_none': lambda it, a: iv(raw),
        'state.decoded_descriptors.append': lambda it, a: V('opaque'),
        'state.decoded_values.append': lambda it, a: (out.append(a[0]), V('opaque'))[1],
        'nbits': V('opaque'), 'descriptor': V('opaque'),
    }
    Interp(env).run(fn.body)
    if len(out) != 1:
        raise Untranslatable('decoder kernel did not append exactly one value')
    return out[0]


def encode_kernel(value, refval, sp):
    """encoder.Encoder.process_numeric_uncompressed as a function value -> raw (V)."""
    fn = _func_ast('pybufrkit/encoder.py', 'Encoder', 'process_numeric_uncompressed')
    out = []
    env = {
        'refval': iv(refval), 'scale_powered': fv(sp),
        'state.decoded_values[state.idx_value]': value,
        'state.idx_value': iv(0),
        'state.decoded_descriptors.append': lambda it, a: V('opaque'),
        'bit_writer.write_uint': lambda it, a: (out.append(a[0]), V('opaque'))[1],
        'nbits': V('opaque'), 'descriptor': V('opaque'),
        'NUMERIC_MISSING_VALUES[nbits]': iv(-1),
    }
    Interp(env).run(fn.body)
    if len(out) != 1:
        raise Untranslatable('encoder kernel did not write exactly one value')
    return out[0]


def compressed_scaling_sites(fn=None):
    """The scaling expressions `X = int(round(X * scale_powered))` inside process_numeric_compressed."""
    fn = fn or _func_ast('pybufrkit/encoder.py', 'Encoder', 'process_numeric_compressed')
    sites = []
    for node in ast.walk(fn):
        if isinstance(node, ast.If) and 'scale_powered' in ast.unparse(node.test):
            sites.append(node)
    return sites


def compressed_kernel(site_if, refval_stmt_owner, value, refval, sp, varname):
    env = {'refval': iv(refval), 'scale_powered': fv(sp), varname: value}
    it = Interp(env)
    it.stmt(site_if)
    return it.env[varname]


# ----------------------------------------------------------------------------- solving

def _run_cvc5(smt2, timeout):
    with tempfile.NamedTemporaryFile('w', suffix='.smt2', delete=False, dir=os.environ.get('TMPDIR', '/tmp')) as f:
        f.write(smt2)
        path = f.name
    t0 = time.time()
    try:
        p = subprocess.run(['cvc5', '--produce-models', '--tlimit=%d' % int(timeout * 1000), path],
                           stdout=subprocess.PIPE, stderr=subprocess.PIPE, timeout=timeout + 10)
        out = p.stdout.decode() + p.stderr.decode()
    except subprocess.TimeoutExpired:
        out = 'timeout'
    finally:
        os.remove(path)
    dt = time.time() - t0
    first = out.strip().splitlines()[0].strip() if out.strip() else 'unknown'
    if '(error' in out:
        first = 'error'
    if first not in ('sat', 'unsat'):
        first = 'unknown'
    return first, dt, out


def solve(constraints, want_model_of, timeout, backend):
    """Returns (status, seconds, model dict)."""
    s = z3.Solver()
    for c in constraints:
        s.add(c)
    if backend == 'cvc5':
        smt2 = '(set-logic QF_BVFP)\n' + s.to_smt2().replace('(check-sat)', '')
        names = ' '.join(str(v) for v in want_model_of)
        smt2 += '(check-sat)\n'
        st, dt, out = _run_cvc5(smt2, timeout)
        model = {}
        if st == 'sat':
            # re-solve with z3 under the same constraints only to extract values is not needed:
            # ask cvc5 for the values
            st2, dt2, out2 = _run_cvc5(smt2 + '(get-value (%s))\n' % names, timeout)
            dt += dt2
            model = {'raw': out2[:400]}
        return st, dt, model
    s.set('timeout', int(timeout * 1000))
    t0 = time.time()
    r = s.check()
    dt = time.time() - t0
    st = str(r)
    model = {}
    if st == 'sat':
        m = s.model()
        for v in want_model_of:
            val = m.eval(v, model_completion=True)
            if z3.is_bv(val):
                model[str(v)] = val.as_signed_long()
            elif z3.is_fp(val):
                model[str(v)] = float(eval(str(z3.simplify(z3.fpToReal(val)).as_fraction())) if False else _fp_to_float(val))
    return (st if st in ('sat', 'unsat') else 'unknown'), dt, model


def _fp_to_float(val):
    import struct
    bv = z3.simplify(z3.fpToIEEEBV(val))
    return struct.unpack('>d', bv.as_long().to_bytes(8, 'big'))[0]


def scale_classes(max_width, with_operators=True):
    """
    Distinct (scale, N) classes of the *current* Table B (all bundled master versions):
    N bounds |raw + ref| for every numeric element of that effective scale and width <= max_width.
    Includes the 207Y (Y=1,2) and 202Y (+-1) modified scales.
    """
    import glob
    classes = {}
    for path in glob.glob(os.path.join(REPO_DIR, 'pybufrkit/tables/0/*/*/TableB.json')):
        for k, v in json.load(open(path)).items():
            name, unit, scale, ref, nbits = v[0], v[1], v[2], v[3], v[4]
            if unit in ('CCITT IA5', 'CODE TABLE', 'FLAG TABLE') or nbits > max_width:
                continue
            variants = [(scale, ref, nbits)]
            if with_operators:
                for y in (1, 2):
                    variants.append((scale + y, ref * 10 ** y, nbits + (10 * y + 2) // 3))
                variants.append((scale + 1, ref, nbits))
                variants.append((scale - 1, ref, nbits))
            for s, r, n in variants:
                if s == 0 or n > max_width + 7:
                    continue
                bound = max(abs(r), abs(r + (1 << n)))
                classes[s] = max(classes.get(s, 0), bound)
    return classes


def lemma_L1(scale, N, timeout, backend, chunks=1):
    """forall integer n, |n| <= N: enc(dec(n)) == n, kernels translated from the AST (refval = 0 folded into n)."""
    global BV
    sp = 1.0 * 10 ** scale
    # Python ints are unbounded; the encoding uses bit-vectors just wide enough for 4096 x the class range
    # (a mis-scaled kernel still fits, so an out-of-range fp->int conversion cannot hide a difference)
    BV = max(16, N.bit_length() + 13)
    n = z3.BitVec('n', BV)
    dec = decode_kernel(n, 0, sp)
    enc = encode_kernel(dec, 0, sp)
    if enc.kind != 'int':
        raise Untranslatable('encoder kernel yields %s' % enc.kind)
    results = []
    lo, hi = -N, N
    step = (hi - lo + chunks) // chunks
    for c in range(chunks):
        a, b = lo + c * step, min(hi, lo + (c + 1) * step - 1)
        st, dt, model = solve([n >= a, n <= b, enc.e != n], [n], timeout, backend)
        results.append({'range': [a, b], 'status': st, 'seconds': round(dt, 2), 'model': model, 'bv_width': BV})
    BV = 64
    return results


def lemma_L2(scale, timeout, backend):
    """forall double v (finite, |v*sp| < 2^52): enc_kernel(v) == rti_RNE(v*sp) at every scaling site of the encoder."""
    sp = 1.0 * 10 ** scale
    v = z3.FP('v', FP)
    ref = z3.BitVec('ref', BV)
    prod = z3.fpMul(RNE, v, z3.FPVal(sp, FP))
    expect = z3.fpToSBV(RNE, z3.fpRoundToIntegral(RNE, prod), z3.BitVecSort(BV)) - ref
    dom = [z3.Not(z3.fpIsNaN(v)), z3.Not(z3.fpIsInf(v)), z3.fpLT(z3.fpAbs(prod), z3.FPVal(2.0 ** 52, FP)),
           ref >= -(1 << 40), ref <= (1 << 40)]
    out = []
    enc = encode_kernel(fv(v), ref, sp)
    st, dt, model = solve(dom + [enc.e != expect], [v, ref], timeout, backend)
    out.append({'site': 'process_numeric_uncompressed', 'status': st, 'seconds': round(dt, 2), 'model': model})
    fn = _func_ast('pybufrkit/encoder.py', 'Encoder', 'process_numeric_compressed')
    sites = compressed_scaling_sites(fn)
    if len(sites) != 2:
        raise Untranslatable('expected 2 scaling sites in process_numeric_compressed, found %d' % len(sites))
    for k, site in enumerate(sites):
        # each site is followed by "if refval: X -= refval" on the same variable
        var = [t for t in ast.walk(site) if isinstance(t, ast.Assign)][0].targets[0].id
        parent_body = _body_containing(fn, site)
        idx = parent_body.index(site)
        it = Interp({'refval': iv(ref), 'scale_powered': fv(sp), var: fv(v)})
        it.stmt(site)
        it.stmt(parent_body[idx + 1])
        got = it.env[var]
        st, dt, model = solve(dom + [got.e != expect], [v, ref], timeout, backend)
        out.append({'site': 'process_numeric_compressed#%d(%s)' % (k, var), 'status': st, 'seconds': round(dt, 2), 'model': model})
    return out


def _body_containing(fn, node):
    for parent in ast.walk(fn):
        for field in ('body', 'orelse'):
            body = getattr(parent, field, None)
            if isinstance(body, list) and node in body:
                return body
    raise Untranslatable('site not found')


def lemma_N1(timeout):
    """nbits_for_uint(x): translated by unrolling on the bit length; least w with x <= 2^w - 2, for 1 <= x < 2^64."""
    fn = _func_ast('pybufrkit/encoder.py', None, 'nbits_for_uint')
    src = ast.unparse(fn)
    # structural check of the kernel, then its semantics by cases on the bit length L (bin(x)[2:] has L chars)
    needed = ["binx = bin(x)[2:]", "nbits = len(binx)", "binx.count('1') == len(binx)", "nbits += 1", "return nbits"]
    for frag in needed:
        if frag not in src:
            raise Untranslatable('nbits_for_uint changed shape: %r not found' % frag)
    x = z3.Int('x')
    results = []
    tot = 0.0
    for L in range(1, 65):
        # bit length L  <=>  2^(L-1) <= x < 2^L ; all ones <=> x == 2^L - 1
        nbits = z3.If(x == 2 ** L - 1, L + 1, L)
        s = z3.Solver()
        s.set('timeout', int(timeout * 1000))
        s.add(x >= 2 ** (L - 1), x < 2 ** L)
        w = z3.Int('w')
        s.add(w == nbits)
        # negation of: x <= 2^w - 2 and (w == 1 or x > 2^(w-1) - 2)
        pow_w = z3.If(w == L, 2 ** L, 2 ** (L + 1))
        pow_w1 = z3.If(w == L, 2 ** (L - 1), 2 ** L)
        s.add(z3.Not(z3.And(x <= pow_w - 2, z3.Or(w == 1, x > pow_w1 - 2))))
        t0 = time.time()
        r = str(s.check())
        tot += time.time() - t0
        results.append(r)
    return {'status': 'unsat' if all(r == 'unsat' for r in results) else ('sat' if 'sat' in results else 'unknown'),
            'cases': len(results), 'seconds': round(tot, 2)}



# ----------------------------------------------------------------------------- replay on the real functions

def replay_grid(scale, n):
    """Run the real decoder and encoder kernels on the concrete integer n (= raw + ref)."""
    sys.path.insert(0, REPO_DIR)
    from pybufrkit.decoder import Decoder
    from pybufrkit.encoder import Encoder

    class St(object):
        pass

    class Rd(object):
        def read_uint_or_none(self, nbits):
            return n

    class Wr(object):
        def write_uint(self, value, nbits):
            self.value = value
    sp = 1.0 * 10 ** scale
    st = St()
    st.decoded_descriptors, st.decoded_values = [], []
    Decoder.process_numeric_uncompressed(None, st, Rd(), None, 40, sp, 0)
    value = st.decoded_values[0]
    st2 = St()
    st2.decoded_descriptors, st2.decoded_values, st2.idx_value = [], [value], 0
    w = Wr()
    Encoder.process_numeric_uncompressed(None, st2, w, None, 40, sp, 0)
    return value, w.value


def replay_encode(x, ref, sp):
    sys.path.insert(0, REPO_DIR)
    from pybufrkit.encoder import Encoder

    class St(object):
        pass

    class Wr(object):
        def write_uint(self, value, nbits):
            self.value = value
    st = St()
    st.decoded_descriptors, st.decoded_values, st.idx_value = [], [x], 0
    w = Wr()
    Encoder.process_numeric_uncompressed(None, st, w, None, 40, sp, ref)
    return w.value


def replay_encode_compressed(x, ref, sp, site):
    """The real Encoder.process_numeric_compressed on a 2-subset column that reaches the given scaling site."""
    sys.path.insert(0, REPO_DIR)
    from pybufrkit.encoder import Encoder
    from pybufrkit.coder import CoderState

    class Wr(object):
        def __init__(self):
            self.values = []

        def write_uint(self, value, nbits):
            self.values.append(value)
    other = x if site == 0 else x + 4096.0 / sp     # site 0: all subsets equal; site 1: x is the minimum of differing values
    st = CoderState(True, 2, [[x], [other]])
    w = Wr()
    enc = Encoder.__new__(Encoder)
    enc.process_numeric_compressed(st, w, None, 60, sp, ref)
    return w.values[0]      # the minimum, i.e. the scaled x


def main(argv=None):
    ap = argparse.ArgumentParser()
    ap.add_argument('set')
    ap.add_argument('--params', default='{}')
    ap.add_argument('--timeout', type=float, default=120.0)
    ap.add_argument('--replay')
    ns = ap.parse_args(argv)
    p = json.loads(ns.params)
    t0 = time.time()
    if os.environ.get('VERIF_MUTATE'):
        from vlib import runh
        runh.install_mutation(os.environ['VERIF_MUTATE'])
    out = {'module': 'vlib.e2', 'harness': ns.set, 'params': p, 'obligations': 0, 'discharged': 0, 'smt_queries': 0,
           'smt_seconds': 0.0, 'cex': [], 'details': [], 'paths': 0}
    if ns.replay:
        rec = json.load(open(ns.replay))
        v = rec['violation']
        if 'n' in v:
            value, back = replay_grid(v['scale'], v['n'])
            out['reproduced'] = (back != v['n'])
            out['violation'] = {'value': value, 'back': back}
        elif 'model' in v and 'v' in v['model']:
            # L2: the real encoder kernel on the concrete double must differ from round-to-nearest
            x, ref = v['model']['v'], v['model'].get('ref', 0)
            sp = 1.0 * 10 ** v['scale']
            site = v.get('site', '')
            if site.startswith('process_numeric_compressed#'):
                got = replay_encode_compressed(x, ref, sp, int(site.split('#')[1][0]))
            else:
                got = replay_encode(x, ref, sp)
            exp = int(round(x * sp)) - ref
            out['reproduced'] = (got != exp)
            out['violation'] = {'v': x, 'ref': ref, 'got': got, 'round_to_nearest': exp}
        else:
            out['reproduced'] = False
        print('RESULT:' + json.dumps(out, default=repr))
        return
    inconclusive = []
    try:
        backend = p.get('backend', 'cvc5')
        if ns.set == 'L1':
            classes = scale_classes(p.get('max_width', 24))
            wanted = p.get('scales')
            for scale in sorted(classes):
                if wanted is not None and scale not in wanted:
                    continue
                N = min(classes[scale], p.get('max_abs', 1 << 62))
                for r in lemma_L1(scale, N, p.get('query_timeout', 60), backend, chunks=p.get('chunks', 1)):
                    out['obligations'] += 1
                    out['smt_queries'] += 1
                    out['smt_seconds'] += r['seconds']
                    r['scale'], r['N'] = scale, N
                    out['details'].append(r)
                    if r['status'] == 'unsat':
                        out['discharged'] += 1
                    elif r['status'] == 'sat':
                        nval = _model_int(r['model'], backend, scale, r['range'])
                        out['cex'].append({'violation': {'what': 'grid value does not round-trip', 'scale': scale, 'n': nval},
                                           'inputs': {}, 'sources': {}, 'notes': {}})
                    else:
                        inconclusive.append('L1 scale %d range %s' % (scale, r['range']))
        elif ns.set == 'L1R':
            classes = scale_classes(p.get('max_width', 32))
            for scale in sorted(classes):
                N = max(classes[scale], p.get('min_abs', 1 << 40))
                r = lemma_L1_real(scale, N, p.get('query_timeout', 60))
                out['obligations'] += 1
                out['smt_queries'] += 1
                out['smt_seconds'] += r['seconds']
                r['scale'], r['N'] = scale, N
                out['details'].append(r)
                if r['status'] == 'unsat':
                    out['discharged'] += 1
                elif r['status'] == 'sat':
                    # the standard model over-approximates IEEE: only a concrete replay makes it a violation
                    out['cex'].append({'violation': {'what': 'grid value does not round-trip', 'scale': scale, 'n': r['model']['n']},
                                       'inputs': {}, 'sources': {}, 'notes': {}})
                else:
                    inconclusive.append('L1R scale %d' % scale)
        elif ns.set == 'L3R':
            classes = scale_classes(p.get('max_width', 32))
            for scale in sorted(classes):
                r = lemma_L3_real(scale, p.get('W', 33), p.get('query_timeout', 60))
                out['obligations'] += 1
                out['smt_queries'] += 1
                out['smt_seconds'] += r['seconds']
                r['scale'] = scale
                out['details'].append(r)
                if r['status'] == 'unsat':
                    out['discharged'] += 1
                elif r['status'] == 'sat':
                    inconclusive.append('L3R scale %d: the standard-model bound fails (no concrete witness extracted)' % scale)
                else:
                    inconclusive.append('L3R scale %d' % scale)
        elif ns.set == 'L2':
            for scale in p.get('scales', [1, 2, -1]):
                for r in lemma_L2(scale, p.get('query_timeout', 60), p.get('backend', 'z3')):
                    out['obligations'] += 1
                    out['smt_queries'] += 1
                    out['smt_seconds'] += r['seconds']
                    r['scale'] = scale
                    out['details'].append(r)
                    if r['status'] == 'unsat':
                        out['discharged'] += 1
                    elif r['status'] == 'sat':
                        out['cex'].append({'violation': {'what': 'encoder kernel does not round to nearest', 'scale': scale,
                                                         'site': r['site'], 'model': r['model']},
                                           'inputs': {}, 'sources': {}, 'notes': {}})
                    else:
                        inconclusive.append('L2 scale %d %s' % (scale, r['site']))
        elif ns.set == 'N1':
            r = lemma_N1(p.get('query_timeout', 30))
            out['obligations'] += r['cases']
            out['smt_queries'] += r['cases']
            out['smt_seconds'] += r['seconds']
            out['details'].append(r)
            if r['status'] == 'unsat':
                out['discharged'] += r['cases']
            elif r['status'] == 'sat':
                out['cex'].append({'violation': {'what': 'nbits_for_uint is not the least width'}, 'inputs': {}, 'sources': {}, 'notes': {}})
            else:
                inconclusive.append('N1')
        else:
            raise Untranslatable('unknown obligation set %s' % ns.set)
        if out['cex']:
            out['verdict'] = 'counterexample'
        elif inconclusive:
            out['verdict'] = 'inconclusive'
            out['errors'] = inconclusive[:10]
        else:
            out['verdict'] = 'confirmed'
    except Untranslatable as e:
        out['verdict'] = 'inconclusive'
        out['errors'] = ['kernel not translatable: %s' % e]
    out['smt_seconds'] = round(out['smt_seconds'], 2)
    out['cpu_s'] = round(time.time() - t0, 2)
    out['counters'] = {}
    print('RESULT:' + json.dumps(out, default=repr))


def _model_int(model, backend, scale, rng, width=64):
    if 'n' in model:
        return model['n']
    raw = model.get('raw', '')
    import re
    m = re.search(r'#x([0-9a-fA-F]+)', raw)
    if m:
        v, bits = int(m.group(1), 16), 4 * len(m.group(1))
    else:
        m = re.search(r'#b([01]+)', raw)
        if not m:
            return rng[0]
        v, bits = int(m.group(1), 2), len(m.group(1))
    return v - (1 << bits) if v >= (1 << (bits - 1)) else v


if __name__ == '__main__':
    main()
