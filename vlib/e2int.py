"""
Engine E2, integer part: obligations over *mathematical integers* (z3 Int, the right
sort for Python's int) generated from the current AST of /repo.

  PAD   encoder.Encoder.process_section: the padding and declared-length arithmetic,
        for EVERY bit length (unbounded), every edition and every declared length.

A tiny symbolic interpreter evaluates the statement list of the real function from the
statement that computes ``nbits_write`` to the end, with the bit writer reduced to its
position (write_bin / skip advance it, set_uint overwrites in place, log.debug is empty)
and ``raise`` recorded as a condition.  unsat of the negated obligation = holds for all
integers; sat = concrete numbers, replayed on the real Encoder.process_section.

  python -m vlib.e2int PAD [--params JSON] [--timeout S] | --replay FILE
"""
import argparse
import ast
import json
import os
import sys
import time

import z3

from vlib.e2 import _func_ast, Untranslatable

REPO_DIR = os.environ.get('VERIF_REPO', '/repo')


class IntState(object):
    def __init__(self, env, pos):
        self.env = dict(env)      # name / dotted path -> z3 Int (or python int / str)
        self.pos = pos            # writer position (z3 Int)
        self.raised = z3.BoolVal(False)
        self.returned = None


class IntInterp(object):
    """Python subset: assignments, if/elif/else, +,-,*,//,%, comparisons, the writer effects."""

    def __init__(self, consts):
        self.consts = consts

    def run(self, stmts, st, guard=None):
        guard = z3.BoolVal(True) if guard is None else guard
        for s in stmts:
            self.stmt(s, st, guard)

    def stmt(self, s, st, guard):
        live = z3.And(guard, z3.Not(st.raised))
        if isinstance(s, ast.Expr):
            if isinstance(s.value, ast.Constant):
                return
            if isinstance(s.value, ast.Call):
                return self.effect(s.value, st, live)
            raise Untranslatable('expression statement')
        if isinstance(s, ast.Assign):
            if len(s.targets) != 1:
                raise Untranslatable('multiple assignment')
            t = s.targets[0]
            if isinstance(t, ast.Tuple):
                if not isinstance(s.value, ast.Tuple) or len(s.value.elts) != len(t.elts):
                    raise Untranslatable('tuple assignment')
                vals = [self.expr(v, st) for v in s.value.elts]
                for tt, v in zip(t.elts, vals):
                    self.assign(tt, v, st, live)
            else:
                self.assign(t, self.expr(s.value, st), st, live)
            return
        if isinstance(s, ast.If):
            c = self.cond(s.test, st)
            self.run(s.body, st, z3.And(guard, c))
            self.run(s.orelse, st, z3.And(guard, z3.Not(c)))
            return
        if isinstance(s, ast.Raise):
            st.raised = z3.Or(st.raised, live)
            return
        if isinstance(s, ast.Return):
            if st.returned is not None:
                raise Untranslatable('several returns')
            st.returned = self.expr(s.value, st)
            return
        raise Untranslatable('statement %s' % type(s).__name__)

    def assign(self, target, val, st, live):
        key = ast.unparse(target)
        old = st.env.get(key)
        if old is None or isinstance(val, str) or isinstance(old, str):
            st.env[key] = val
        else:
            st.env[key] = z3.If(live, val, old)

    def effect(self, call, st, live):
        fn = ast.unparse(call.func)
        if fn.startswith('log.'):
            return
        if fn == 'bit_writer.set_uint':
            return   # overwrites in place: position unchanged (that it does is property C19)
        if fn == 'bit_writer.skip':
            n = self.expr(call.args[0], st)
            st.pos = z3.If(live, st.pos + n, st.pos)
            return
        if fn == 'bit_writer.write_bin':
            a = call.args[0]
            # only the idiom  '0' * n
            if isinstance(a, ast.BinOp) and isinstance(a.op, ast.Mult) and isinstance(a.left, ast.Constant) and a.left.value == '0':
                n = self.expr(a.right, st)
                st.zero_only = True
                st.pos = z3.If(live, st.pos + z3.If(n > 0, n, 0), st.pos)
                return
            raise Untranslatable('write_bin of something other than zeros')
        raise Untranslatable('call %s' % fn)

    def cond(self, test, st):
        if isinstance(test, ast.Compare) and len(test.ops) == 1:
            if isinstance(test.ops[0], (ast.In, ast.NotIn)):
                key = ast.unparse(test)
                if key in st.env:
                    return st.env[key]
                raise Untranslatable('membership test %s' % key)
            l, r = self.expr(test.left, st), self.expr(test.comparators[0], st)
            op = test.ops[0]
            table = {ast.Eq: lambda: l == r, ast.NotEq: lambda: l != r, ast.Lt: lambda: l < r, ast.LtE: lambda: l <= r,
                     ast.Gt: lambda: l > r, ast.GtE: lambda: l >= r}
            for k, f in table.items():
                if isinstance(op, k):
                    return f()
            raise Untranslatable('comparison %s' % type(op).__name__)
        if isinstance(test, ast.BoolOp):
            parts = [self.cond(v, st) for v in test.values]
            return z3.And(*parts) if isinstance(test.op, ast.And) else z3.Or(*parts)
        if isinstance(test, ast.UnaryOp) and isinstance(test.op, ast.Not):
            return z3.Not(self.cond(test.operand, st))
        key = ast.unparse(test)
        if key in st.env and z3.is_bool(st.env[key]):
            return st.env[key]
        raise Untranslatable('condition %s' % key)

    def expr(self, e, st):
        if isinstance(e, ast.Constant):
            if isinstance(e.value, bool) or not isinstance(e.value, int):
                raise Untranslatable('constant %r' % (e.value,))
            return z3.IntVal(e.value)
        if isinstance(e, ast.Name):
            if e.id in st.env:
                return st.env[e.id]
            if e.id in self.consts:
                return z3.IntVal(self.consts[e.id])
            raise Untranslatable('unknown name %s' % e.id)
        if isinstance(e, (ast.Attribute, ast.Subscript)):
            key = ast.unparse(e)
            if key in st.env:
                return st.env[key]
            raise Untranslatable('unknown reference %s' % key)
        if isinstance(e, ast.Call):
            key = ast.unparse(e)
            if key == 'bit_writer.get_pos()':
                return st.pos
            if key in st.env:
                return st.env[key]
            raise Untranslatable('call %s' % key)
        if isinstance(e, ast.IfExp):
            return z3.If(self.cond(e.test, st), self.expr(e.body, st), self.expr(e.orelse, st))
        if isinstance(e, ast.UnaryOp) and isinstance(e.op, ast.USub):
            return -self.expr(e.operand, st)
        if isinstance(e, ast.BinOp):
            l, r = self.expr(e.left, st), self.expr(e.right, st)
            if isinstance(e.op, ast.Add):
                return l + r
            if isinstance(e.op, ast.Sub):
                return l - r
            if isinstance(e.op, ast.Mult):
                return l * r
            if isinstance(e.op, (ast.FloorDiv, ast.Mod)):
                # Python floor semantics == SMT-LIB div/mod for a positive constant divisor
                rr = z3.simplify(r)
                if not z3.is_int_value(rr) or rr.as_long() <= 0:
                    raise Untranslatable('division by a non-constant or non-positive number')
                return l / r if isinstance(e.op, ast.FloorDiv) else l % r
            raise Untranslatable('operator %s' % type(e.op).__name__)
        raise Untranslatable('expression %s' % type(e).__name__)


def _constants():
    import importlib.util
    spec = importlib.util.spec_from_file_location('_c', os.path.join(REPO_DIR, 'pybufrkit', 'constants.py'))
    m = importlib.util.module_from_spec(spec)
    spec.loader.exec_module(m)
    return {k: v for k, v in vars(m).items() if isinstance(v, int) and not isinstance(v, bool)}


def section_tail(ignore_declared):
    """
    Symbolic summary of Encoder.process_section from the statement computing nbits_write to the return:
    inputs start, content bits (>= 0), edition, declared length; outputs final position, raised, returned.
    """
    fn = _func_ast('pybufrkit/encoder.py', 'Encoder', 'process_section')
    idx = None
    for i, s in enumerate(fn.body):
        if isinstance(s, ast.Assign) and ast.unparse(s.targets[0]) == 'nbits_write':
            idx = i
            break
    if idx is None:
        raise Untranslatable('nbits_write assignment not found')
    start, bits, edition, decl = z3.Ints('start bits edition decl')
    st = IntState({
        'section.get_metadata(BITPOS_START)': start,
        'bufr_message.edition.value': edition,
        'section.section_length.value': decl,
        "'section_length' in section": z3.BoolVal(True),
        'self.ignore_declared_length': z3.BoolVal(bool(ignore_declared)),
        'section.section_length.nbits': z3.IntVal(24),
        "section.get_parameter_offset('section_length')": z3.IntVal(0),
    }, start + bits)
    IntInterp(_constants()).run(fn.body[idx:], st)
    pre = [start >= 0, start % 8 == 0, bits >= 24, edition >= 0, decl >= 0, decl < 2 ** 24]   # a section holds at least its 24-bit length field
    return dict(start=start, bits=bits, edition=edition, decl=decl, st=st, pre=pre)


def obligations_PAD():
    obs = []
    for ign in (True, False):
        t = section_tail(ign)
        st, start, bits, ed, decl = t['st'], t['start'], t['bits'], t['edition'], t['decl']
        ext = st.pos - start                       # extent in bits
        natural = z3.If(ed <= 3, ((bits + 15) / 16) * 16, ((bits + 7) / 8) * 8)
        computed = z3.Or(z3.BoolVal(ign), decl == 0)
        name = 'recompute' if ign else 'honour'
        obs.append(('%s: a computed section extends to the next octet (even octet for editions <= 3) and no further' % name,
                    t, z3.Implies(computed, z3.And(z3.Not(st.raised), ext == natural))))
        obs.append(('%s: the length written into the section is its extent in octets' % name,
                    t, z3.Implies(z3.Not(st.raised), z3.And(ext % 8 == 0,
                                                           z3.Implies(computed, st.env['section.section_length.value'] * 8 == ext)))))
        obs.append(('%s: the function returns the extent' % name, t, z3.Implies(z3.Not(st.raised), st.returned == ext)))
        if not ign:
            honoured = z3.And(decl != 0)
            obs.append(('honour: a declared length not shorter than the padded content is filled exactly to it', t,
                        z3.Implies(z3.And(honoured, decl * 8 >= natural), z3.And(z3.Not(st.raised), ext == decl * 8))))
            obs.append(('honour: a declared length shorter than the padded content is refused', t,
                        z3.Implies(z3.And(honoured, decl * 8 < natural), st.raised)))
    return obs


def solve_all(obs, timeout):
    out = []
    for name, t, claim in obs:
        s = z3.Solver()
        s.set('timeout', int(timeout * 1000))
        s.add(*t['pre'])
        s.add(z3.Not(claim))
        t0 = time.time()
        r = s.check()
        if str(r) == 'sat':
            # prefer a small witness (replayable on the real function)
            s.push()
            s.add(t['bits'] <= 4096, t['start'] <= 4096, t['decl'] <= 1024, t['edition'] <= 5)
            if str(s.check()) != 'sat':
                s.pop()
                s.check()
        rec = {'obligation': name, 'status': str(r), 'seconds': round(time.time() - t0, 3)}
        if str(r) == 'sat':
            m = s.model()
            rec['model'] = {k: m.eval(t[k], model_completion=True).as_long() for k in ('start', 'bits', 'edition', 'decl')}
            rec['ignore_declared_length'] = name.startswith('recompute')
        out.append(rec)
    return out


def vacuity_twin(timeout):
    """The preconditions are satisfiable and a refusing as well as an accepting run exist."""
    t = section_tail(False)
    ok = []
    for extra in (t['st'].raised, z3.Not(t['st'].raised), t['st'].pos - t['start'] > t['bits']):
        s = z3.Solver()
        s.set('timeout', int(timeout * 1000))
        s.add(*t['pre'])
        s.add(extra)
        ok.append(str(s.check()) == 'sat')
    return all(ok)


def replay_PAD(v):
    """Run the real Encoder.process_section on a section of `bits` content bits."""
    sys.path.insert(0, REPO_DIR)
    from pybufrkit.encoder import Encoder
    from pybufrkit.bufr import BufrMessage, BufrSection, SectionParameter
    from pybufrkit.bitops import BitStringBitWriter
    from pybufrkit.errors import PyBufrKitError
    m = v['model']
    enc = Encoder(ignore_declared_length=v['ignore_declared_length'])
    msg = BufrMessage()
    msg.edition = SectionParameter('edition', 8, 'uint', None, True, m['edition'])
    sec = BufrSection()
    sec.add_parameter(SectionParameter('section_length', 24, 'uint', None, False, m['decl']))
    nb = m['bits'] - 24
    if nb < 0 or m['bits'] > 2000000 or m['start'] > 800000 or m['decl'] >= 1 << 24:
        return None
    if nb:
        sec.add_parameter(SectionParameter('payload', nb, 'bin', None, False, '1' * nb))
    w = BitStringBitWriter()
    w.skip(m['start']) if m['start'] else None
    ed = m['edition']
    natural = -(-m['bits'] // 16) * 16 if ed <= 3 else -(-m['bits'] // 8) * 8
    computed = v['ignore_declared_length'] or m['decl'] == 0
    try:
        ret = enc.process_section(msg, w, sec)
        raised = False
    except PyBufrKitError:
        raised, ret = True, None
    ext = w.get_pos() - m['start']
    if computed:
        good = (not raised) and ext == natural and sec.section_length.value * 8 == ext and ret == ext
    elif m['decl'] * 8 >= natural:
        good = (not raised) and ext == m['decl'] * 8 and ret == ext
    else:
        good = raised
    return {'reproduced': not good, 'extent_bits': ext, 'raised': raised, 'natural': natural}


def main(argv=None):
    ap = argparse.ArgumentParser()
    ap.add_argument('set')
    ap.add_argument('--params', default='{}')
    ap.add_argument('--timeout', type=float, default=120.0)
    ap.add_argument('--replay')
    ns = ap.parse_args(argv)
    p = json.loads(ns.params)
    t0 = time.time()
    if os.environ.get('VERIF_MUTATE'):
        from vlib import runh
        runh.install_mutation(os.environ['VERIF_MUTATE'])
    out = {'module': 'vlib.e2int', 'harness': ns.set, 'params': p, 'obligations': 0, 'discharged': 0, 'smt_queries': 0,
           'smt_seconds': 0.0, 'cex': [], 'details': [], 'paths': 0, 'counters': {}}
    if ns.replay:
        rec = json.load(open(ns.replay))
        r = replay_PAD(rec['violation'])
        out['reproduced'] = bool(r and r['reproduced'])
        out['violation'] = r
        print('RESULT:' + json.dumps(out, default=repr))
        return
    inconclusive = []
    try:
        if ns.set != 'PAD':
            raise Untranslatable('unknown obligation set %s' % ns.set)
        res = solve_all(obligations_PAD(), p.get('query_timeout', 60))
        if not vacuity_twin(p.get('query_timeout', 60)):
            inconclusive.append('vacuity twin: preconditions or outcomes unsatisfiable')
        for r in res:
            out['obligations'] += 1
            out['smt_queries'] += 1
            out['smt_seconds'] += r['seconds']
            out['details'].append(r)
            if r['status'] == 'unsat':
                out['discharged'] += 1
            elif r['status'] == 'sat':
                out['cex'].append({'violation': {'what': r['obligation'], 'model': r['model'],
                                                 'ignore_declared_length': r['ignore_declared_length']},
                                   'inputs': {}, 'sources': {}, 'notes': {}})
            else:
                inconclusive.append(r['obligation'])
        out['verdict'] = 'counterexample' if out['cex'] else ('inconclusive' if inconclusive else 'confirmed')
        if inconclusive:
            out['errors'] = inconclusive[:10]
    except Untranslatable as e:
        out['verdict'] = 'inconclusive'
        out['errors'] = ['section arithmetic not translatable: %s' % e]
    out['smt_seconds'] = round(out['smt_seconds'], 2)
    out['cpu_s'] = round(time.time() - t0, 2)
    print('RESULT:' + json.dumps(out, default=repr))


if __name__ == '__main__':
    main()
