"""
Path-exhaustive symbolic exploration of a harness function (engine E1).

This is CrossHair's own exploration loop (crosshair.core.explore_paths), i.e.
concolic execution of the real Python code with z3 deciding every branch on a
solver term, driven until the path tree is *exhausted*.  A harness is a plain
function ``h(ctx)`` that builds its solver variables through ``ctx``, runs the
real pybufrkit code and returns ``None`` when the property held on this path or
a description of the violation.  Because every branch on a symbolic value is a
solver query (both sides explored when both are satisfiable), "exhausted with
no violation" means: for every assignment of the solver variables within the
harness's bounds the assertion holds.  Anything else (timeouts, unknown,
unexplored paths) is reported as inconclusive, never as success.
"""
import sys
import time
import traceback

from vlib import symcore as sc

from crosshair.core import Patched, ExceptionFilter
from crosshair.statespace import (RootNode, StateSpace, StateSpaceContext, CallAnalysis,
                                  VerificationStatus)
from crosshair.tracers import COMPOSITE_TRACER, NoTracing, ResumedTracing
from crosshair.util import IgnoreAttempt, UnexploredPath, NotDeterministic, CrossHairInternal
from time import process_time


class HarnessError(Exception):
    pass


def explore(harness, make_ctx, per_path_timeout=30.0, timeout=120.0, max_paths=100000, max_cex=8, format_tokens=True):
    """
    Explore all paths of ``harness(ctx)``.  Returns a dict:
      verdict: 'confirmed' | 'counterexample' | 'inconclusive' | 'error'
      paths, paths_ok, paths_pruned, paths_unknown, cex (list of records), witnesses, ...
    """
    if format_tokens:
        sc.install_format_patches()
    sc.install_quot()
    search_root = RootNode()
    t_start = process_time()
    w_start = time.time()
    res = {
        'paths': 0, 'paths_ok': 0, 'paths_pruned': 0, 'paths_unknown': 0, 'paths_violating': 0,
        'cex': [], 'witnesses': {}, 'exhausted': False, 'errors': [], 'unknown_reasons': {},
    }
    exhausted = False
    for i in range(max_paths):
        itr_start = process_time()
        if itr_start > t_start + timeout:
            res['errors'].append('condition timeout after %d paths' % i)
            break
        space = StateSpace(
            execution_deadline=itr_start + per_path_timeout,
            model_check_timeout=per_path_timeout / 2,
            search_root=search_root,
        )
        res['paths'] += 1
        sc.reset_path()
        status = None
        with Patched(), COMPOSITE_TRACER, NoTracing(), StateSpaceContext(space):
            ctx = make_ctx()
            try:
                ret = None
                with ExceptionFilter() as efilter, ResumedTracing():
                    ret = harness(ctx)
                if efilter.user_exc:
                    exc, stack = efilter.user_exc
                    if isinstance(exc, NotDeterministic):
                        raise NotDeterministic
                    # An exception escaping the harness is a harness defect, not a verdict.
                    res['errors'].append('harness raised %s: %s\n%s' % (
                        type(exc).__name__, exc, ''.join(stack.format()[-6:]) if stack else ''))
                    status = VerificationStatus.UNKNOWN
                elif efilter.ignore:
                    res['paths_pruned'] += 1
                    status = None
                else:
                    if ret is None:
                        res['paths_ok'] += 1
                    else:
                        res['paths_violating'] += 1
                        if len(res['cex']) < max_cex:
                            with ResumedTracing():
                                record = ctx.realize_record(ret)
                            res['cex'].append(record)
                    for tag in ctx.witness_tags:
                        res['witnesses'][tag] = res['witnesses'].get(tag, 0) + 1
                    status = VerificationStatus.CONFIRMED
            except IgnoreAttempt:
                res['paths_pruned'] += 1
                status = None
            except UnexploredPath as e:
                res['paths_unknown'] += 1
                k = type(e).__name__
                res['unknown_reasons'][k] = res['unknown_reasons'].get(k, 0) + 1
                status = VerificationStatus.UNKNOWN
            except NotDeterministic:
                res['errors'].append('NotDeterministic on path %d' % i)
                status = VerificationStatus.UNKNOWN
                # the tree is unreliable now
                _analysis, exhausted = space.bubble_status(CallAnalysis(status))
                break
            _analysis, exhausted = space.bubble_status(CallAnalysis(status))
        if exhausted:
            break
        if res['paths_violating'] >= max_cex:
            break
        if len(res['errors']) > 5:
            break
    res['exhausted'] = bool(exhausted)
    top = search_root.child.get_result()
    top_status = top.verification_status
    res['tree_status'] = top_status.name if top_status is not None else 'NONE'
    if res['cex']:
        res['verdict'] = 'counterexample'
    elif res['errors']:
        res['verdict'] = 'error' if any('harness raised' in e for e in res['errors']) else 'inconclusive'
    elif exhausted and res['paths_unknown'] == 0 and res['paths_ok'] > 0 and top_status == VerificationStatus.CONFIRMED:
        res['verdict'] = 'confirmed'
    elif exhausted and res['paths_unknown'] == 0 and res['paths_ok'] == 0:
        res['verdict'] = 'vacuous'
    else:
        res['verdict'] = 'inconclusive'
    res['cpu_s'] = round(process_time() - t_start, 3)
    res['wall_s'] = round(time.time() - w_start, 3)
    res['counters'] = dict(sc.COUNTERS)
    res['counters']['solver_seconds'] = round(res['counters']['solver_seconds'], 3)
    res['realized_terms'] = dict(list(sc.REALIZED_TERMS.items())[:12])
    return res
