"""
Program families (DESIGN 2.6): the concretely enumerated template dimension.
Each entry is one *program*; the data of every program is symbolic.

Elements used (master table 33):
  001004 num 3b | 001001 num 7b | 001002 num 10b | 012001 K scale 1, 12b | 004015 ref -2048, 12b
  010061 Pa scale -1 ref -500, 10b | 002129 dB ref -150, 5b | 005002 deg scale 2 ref -9000, 15b
  002001 code 2b | 020011 code 4b | 020003 code 9b | 002002 flag 4b | 031000/031001/031002 factors
  031031 bitmap bit | 031021 assoc significance | 033007 % 7b | 033003 code 3b | 008023/008024 code 6b
  000010 string 8b | 000011 string 16b
"""


def T(name, ids, **kw):
    d = {'name': name, 'ids': ids}
    d.update(kw)
    return d


# value-level families: every field may be 0 / max / missing (all forks explored)
VALUE_FAMILIES = [
    T('plain', [1004, 2001, 12001, 10061, 2129]),
    T('plain2', [4015, 5002, 20011, 2002]),
    T('onebit', [31000, 31031, 2001, 1004]),
    T('strings', [10, 1004, 11, 205002, 2001]),
    T('str208', [208001, 11, 10, 208000, 11, 208003, 10]),
    T('seq', [301001, 2001, 301023]),
    T('seq-nested', [301025]),
    T('fixedrep', [102002, 1004, 12001, 2001]),
    T('delayed', [102000, 31001, 1004, 12001, 2001], max_factor=2),
    T('delayed-short', [101000, 31000, 12001, 101000, 31002, 1004], max_factor=2),
    T('nested-rep', [104000, 31001, 1004, 101000, 31001, 2001], max_factor=2),
    T('rep-of-seq', [101000, 31001, 301001, 1004], max_factor=2),
    T('op201', [201130, 1004, 12001, 2001, 201000, 1004]),
    T('op201-shrink', [201126, 12001, 10061, 201000, 12001]),
    T('op202', [202129, 12001, 10061, 202000, 12001, 202126, 12001]),
    T('op201-202', [201129, 202130, 12001, 20011, 10, 202000, 201000, 12001]),
    T('op203', [203010, 4015, 12001, 203255, 4015, 12001, 203000, 4015]),
    T('op203-scaled', [203008, 10061, 203255, 10061, 207001, 10061]),
    T('op204', [204003, 31021, 1004, 12001, 10, 204000, 1004]),
    T('op204-nested', [204002, 31021, 204003, 31021, 1004, 204000, 2001, 204000, 1004]),
    T('op204-rep', [204001, 31021, 101000, 31001, 12001, 204000, 1004], max_factor=2),
    T('op206', [206007, 63250, 1004, 206009, 1004, 2001]),
    T('op207', [207001, 12001, 10061, 2001, 10, 207000, 12001]),
    T('op207-2', [207002, 4015, 207000, 4015]),
    T('op221', [221002, 1004, 12001, 12001, 221001, 20003, 2001]),
    T('open-201', [12001, 201130]),
    T('open-204', [1004, 204002, 31021, 1004]),
    T('open-207', [12001, 207001, 12001]),
    T('open-221', [12001, 1001, 221003, 1002, 10004]),
    T('open-222', [33007, 1004, 222000, 101001, 31031]),
]

# structure-level families: attribute values are assumed not missing (bound), structure bits symbolic
BITMAP_FAMILIES = [
    T('qa222', [1004, 12001, 2001, 222000, 101003, 31031, 101000, 31001, 33007], no_missing=True, max_factor=3),
    T('qa222-delayed-bitmap', [1004, 12001, 222000, 101000, 31001, 31031, 101000, 31001, 33003], no_missing=True, max_factor=2),
    T('qa222-on-factor', [101000, 31001, 1004, 222000, 101002, 31031, 33007, 33007], no_missing=True, max_factor=1),
    T('sub223', [1004, 12001, 223000, 101002, 31031, 101000, 31001, 223255], no_missing=True, max_factor=2),
    T('stat224', [1004, 12001, 224000, 236000, 101002, 31031, 8023, 101000, 31001, 224255], no_missing=True, max_factor=2),
    T('diff225', [1004, 12001, 225000, 101002, 31031, 8024, 101000, 31001, 225255], no_missing=True, max_factor=2),
    T('rep232', [4015, 2001, 232000, 101002, 31031, 101000, 31001, 232255], no_missing=True, max_factor=2),
    T('reuse-237', [1004, 12001, 222000, 236000, 101002, 31031, 101000, 31001, 33007,
                    224000, 237000, 8023, 101000, 31001, 224255], no_missing=True, max_factor=2),
    T('cancel-235', [1004, 12001, 222000, 101002, 31031, 33007, 235000, 2001, 224000, 101001, 31031, 8023, 224255],
      no_missing=True, max_factor=2),
    T('cancel-237255', [1004, 12001, 223000, 236000, 101002, 31031, 223255, 237255, 232000, 101002, 31031, 232255],
      no_missing=True, max_factor=2),
    T('two-bitmaps', [1004, 12001, 222000, 101002, 31031, 33007, 224000, 101002, 31031, 8023, 224255],
      no_missing=True, max_factor=2),
    T('marker-under-201', [1004, 12001, 201130, 224000, 101002, 31031, 8023, 224255, 201000, 224255], no_missing=True),
    T('rebuild-over-markers', [1004, 12001, 223000, 101001, 31031, 223255, 235000, 224000, 101003, 31031, 8023, 224255, 224255, 224255],
      no_missing=True, max_factor=1),
    T('seq-before-bitmap', [301001, 102002, 12001, 2001, 222000, 101003, 31031, 33007], no_missing=True),
]


# further bitmap / attribute programs for C07
ATTRIBUTE_FAMILIES = [
    T('bm-delayed4', [1004, 12001, 2001, 20011, 222000, 101000, 31001, 31031, 101000, 31001, 33007], no_missing=True, max_factor=4),
    T('bm-nested-rep', [102002, 1004, 12001, 222000, 101004, 31031, 101000, 31001, 33007], no_missing=True, max_factor=2),
    T('bm-redefine', [1004, 12001, 2001, 223000, 236000, 101003, 31031, 101000, 31001, 223255,
                      224000, 236000, 101003, 31031, 8023, 101000, 31001, 224255], no_missing=True, max_factor=1),
    T('bm-assoc', [204002, 31021, 1004, 204000, 12001, 222000, 101002, 31031, 101000, 31001, 33007], no_missing=True, max_factor=2),
    T('bm-in-rep', [101002, 1004, 12001, 224000, 101003, 31031, 8023, 101000, 31001, 224255], no_missing=True, max_factor=3),
    T('bm-chain-4', [1004, 2129, 222000, 236000, 101002, 31031, 101000, 31001, 33003, 223000, 237000, 101000, 31001, 223255,
                     225000, 237000, 8024, 101000, 31001, 225255, 232000, 237000, 101000, 31001, 232255], no_missing=True, max_factor=1),
]

# compressed columns: few columns per program (each column forks on its 6-bit width and per-subset missing flags)
COMPRESSED_FAMILIES = [
    T('c-num', [12001, 1004]),
    T('c-ref', [4015, 10061]),
    T('c-code', [2001, 20011]),
    T('c-onebit', [31031, 31000, 2001]),
    T('c-str', [10]),
    T('c-str205', [205001, 1004]),
    T('c-str208', [208001, 11]),
    T('c-rep', [101000, 31001, 12001], max_factor=1),
    T('c-fixed', [101002, 1004]),
    T('c-201', [201130, 1004, 201000, 1004]),
    T('c-203', [203006, 4015, 203255, 4015]),
    T('c-204', [204002, 31021, 1004, 204000]),
    T('c-206', [206004, 63250, 1004]),
    T('c-207', [207001, 12001, 2001]),
    T('c-221', [221001, 12001, 1004]),
    T('c-222', [1004, 222000, 101001, 31031, 33003], no_missing=True),
    T('c-224', [1004, 2129, 224000, 101002, 31031, 8023, 224255], no_missing=True),
    T('c-225', [1004, 225000, 101001, 31031, 8024, 225255], no_missing=True),
]


def by_name(name):
    for f in VALUE_FAMILIES + BITMAP_FAMILIES + ATTRIBUTE_FAMILIES + COMPRESSED_FAMILIES:
        if f['name'] == name:
            return f
    raise KeyError(name)
