"""
Independent reference interpreter of the FM-94 data description language
(DESIGN 2.5).  Written from the Manual on Codes and from the *statements* of
the properties; it shares no code with pybufrkit/coder.py.  It walks a
descriptor id list over a bit accessor and produces, per subset, the list of
(label, value) items, the attribute links and the final bit position.

The same code runs on solver terms (explore) and on concrete ints (replay /
corpus sweep): all value-dependent decisions go through ``ctx``-style helpers
(``Env.truth``, ``Env.concrete``).
"""
import json
import os

from vlib import symcore as sc

TABLES_ROOT = os.path.join(os.environ.get('VERIF_REPO', '/repo'), 'pybufrkit', 'tables')


class RefMalformed(Exception):
    """The reference considers the input outside the property's domain."""


class RefUnsupported(Exception):
    """Construct the reference does not model (outside every claim)."""


_TABLE_CACHE = {}


def load_tables(master_version=33, local=None, root=None):
    """(B, D): B[id] = (name, unit, scale, ref, nbits); D[id] = [member ids]."""
    key = (master_version, local, root)
    if key in _TABLE_CACHE:
        return _TABLE_CACHE[key]
    root = root or TABLES_ROOT
    dirs = [os.path.join(root, '0', '0_0', str(master_version))]
    if local:
        dirs.append(os.path.join(root, '0', local[0], str(local[1])))
    B, D = {}, {}
    for d in dirs:
        with open(os.path.join(d, 'TableB.json')) as f:
            for k, v in json.load(f).items():
                B[int(k)] = (v[0], v[1], v[2], v[3], v[4])
        with open(os.path.join(d, 'TableD.json')) as f:
            for k, v in json.load(f).items():
                D[int(k)] = [int(x) for x in v[1]]
    _TABLE_CACHE[key] = (B, D)
    return B, D


class Env(object):
    """Decision helpers: how the reference branches on (possibly symbolic) values."""

    def __init__(self, ctx, max_factor=3, max_diff_width=64, no_missing=False):
        self.ctx = ctx
        self.max_factor = max_factor
        self.max_diff_width = max_diff_width
        self.no_missing = no_missing   # bound: value fields are assumed not to be all ones
        self.canonical_only = False
        self.in_range = False
        self.string_width_exact = False   # character differences of exactly the field width (what an uncompressed field can hold)

    def is_missing(self, v, n):
        """Is the n-bit field v all ones?  (Under no_missing the all-ones case is excluded from the run.)"""
        if self.no_missing and sc.is_sym(v):
            sc.add(sc.unwrap(v) != all_ones(n))
            return False
        return self.truth(v == all_ones(n))

    def truth(self, cond):
        return bool(cond)   # forks under CrossHair when cond is symbolic

    def concrete(self, v, lo, hi):
        return self.ctx.concrete(v, lo, hi)


MARKER_PREFIX = {223255: 'T', 224255: 'F', 225255: 'D', 232255: 'R'}


def all_ones(n):
    return (1 << n) - 1


class Item(object):
    """One decoded entry: label, value, and what kind of thing it is."""
    __slots__ = ('label', 'value', 'kind', 'eid', 'enc')

    def __init__(self, label, value, kind, eid=None, enc=None):
        self.label = label
        self.value = value
        self.kind = kind      # 'element' | 'assoc' | 'skipped' | 'marker' | 'opval' | 'string205' | 'newref'
        self.eid = eid        # table B id for elements
        self.enc = enc        # numeric fields: (effective width, effective reference, 10**scale as double)

    def __repr__(self):
        return '%s=%r' % (self.label, self.value)


class SubsetOut(object):
    def __init__(self):
        self.items = []
        self.links = {}       # index of attribute item -> index of owner item (bitmap-driven attributes)
        self.assoc = {}       # index of associated-field item -> index of the element it precedes
        self.meaning = {}     # index of attribute item -> index of its 031021 / 008023 / 008024 meaning item


class Reference(object):
    """
    One application of a template to a bit stream.

    bits: object with peek(pos, nbits) and peek_bytes(pos, nbytes)
    """

    def __init__(self, B, D, env, bits, pos=0, n_subsets=1, compressed=False, string_mode='bytes'):
        self.B, self.D, self.env, self.bits = B, D, env, bits
        self.pos = pos
        self.n_subsets = n_subsets
        self.compressed = compressed
        self.outs = [SubsetOut() for _ in range(n_subsets)]
        self.cur = 0  # current subset (uncompressed)
        self.inline_sequences = False
        self.columns = []   # compressed data: (kind, width, min term, diff width, [diff terms])

    # ------------------------------------------------------------------ raw access
    def _u(self, n):
        if n == 0:
            raise RefUnsupported('zero-width field')
        v = self.bits.peek(self.pos, n)
        self.pos += n
        return v

    def _bytes(self, nbytes):
        v = self.bits.peek_bytes(self.pos, nbytes)
        self.pos += 8 * nbytes
        return v

    def _uint_or_none(self, n):
        v = self._u(n)
        if n > 1 and self.env.is_missing(v, n):
            return None
        return v

    # ------------------------------------------------------------------ per-run operator registers
    def _reset_registers(self):
        self.w_off = 0            # 201
        self.s_off = 0            # 202
        self.newref_bits = 0      # 203 (definition mode)
        self.newrefs = {}
        self.assoc = []           # 204
        self.skip_bits = 0        # 206
        self.inc = (0, 0, 1)      # 207: width inc, scale inc, ref factor
        self.nbytes = 0           # 208
        self.np_count = 0         # 221
        self.qa = 0               # 0 none, 1 waiting, 2 processing
        # bitmap machinery
        self.bm_state = 0         # 0 none, 1 just saw operator, 2 waiting for bits, 3 counting bits
        self.bm_reuse = False
        self.bm_nbits = 0
        self.boundary = 0
        self.backrefs = None
        self.targets = None       # list of owner indices (zero bits)
        self.target_iter = None
        # meaning elements
        self.assoc_meaning = None
        self.stat_meaning = {224: None, 225: None}
        self.stat_waiting = {224: False, 225: False}

    def _outs_now(self):
        return self.outs if self.compressed else [self.outs[self.cur]]

    # ------------------------------------------------------------------ emission
    def _emit(self, label, kind, eid, values, enc=None):
        """values: one value (uncompressed) or list per subset (compressed)."""
        if self.compressed:
            for out, v in zip(self.outs, values):
                out.items.append(Item(label, v, kind, eid, enc))
        else:
            self.outs[self.cur].items.append(Item(label, values, kind, eid, enc))

    def _n_items(self):
        return len(self.outs[0 if self.compressed else self.cur].items)

    def _items(self):
        return self.outs[0 if self.compressed else self.cur].items

    def _link(self, attr_index, owner_index):
        if self.compressed:
            for out in self.outs:
                out.links[attr_index] = owner_index
        else:
            self.outs[self.cur].links[attr_index] = owner_index

    # ------------------------------------------------------------------ field readers
    def _read_uint_field(self, n, conv, codeflag_width=None):
        """
        An unsigned field of n bits; conv maps raw -> value.  Compressed: minimum,
        6-bit difference width, one difference per subset.
        """
        if not self.compressed:
            raw = self._uint_or_none(n)
            return None if raw is None else conv(raw)
        mn = self._uint_or_none(n)
        w = self._u(6)
        w = self.env.concrete(w, 0, self.env.max_diff_width)
        col = ['uint', n, mn, w, []]
        self.columns.append(col)
        if mn is None:
            if w != 0:
                raise RefMalformed('all-missing column with non-zero difference width')
            return [None] * self.n_subsets
        if w == 0:
            v = conv(mn)
            return [v] * self.n_subsets
        out = []
        for _ in range(self.n_subsets):
            d = self._u(w)
            col[4].append(d)
            if self.env.is_missing(d, w):
                if (self.env.canonical_only or self.env.in_range) and n == 1:
                    self.env.ctx.assume(False)   # a 1-bit field has no missing value to give to an encoder
                out.append(None)
            else:
                raw = mn + d
                if self.env.canonical_only:
                    # values "drawn from the representable range of the field": raw <= 2^n - 2 (1-bit: <= 1)
                    self.env.ctx.assume(self.env.truth(raw <= all_ones(n) - (1 if n > 1 else 0)))
                elif self.env.in_range:
                    # foreign but valid data: minimum + difference still fits the element's own width
                    self.env.ctx.assume(self.env.truth(raw <= all_ones(n)))
                if codeflag_width is not None and codeflag_width > 1 and self.env.truth(raw == all_ones(codeflag_width)):
                    # a code/flag value that sums to the element's own all-ones pattern is missing
                    out.append(None)
                else:
                    out.append(conv(raw))
        return out

    def _read_string(self, nbytes):
        if not self.compressed:
            return self._bytes(nbytes)
        mn = self._bytes(nbytes)
        w = self._u(6)
        w = self.env.concrete(w, 0, self.env.max_diff_width)
        col = ['bytes', nbytes, mn, w, []]
        self.columns.append(col)
        if w == 0:
            return [mn] * self.n_subsets
        if not self.env.truth(mn == b'\0' * nbytes):
            raise RefMalformed('character column with differences and a non-zero base')
        if (self.env.canonical_only or self.env.string_width_exact) and w != nbytes:
            self.env.ctx.assume(False)   # entries of exactly the field width only
        col[4] = [self._bytes(w) for _ in range(self.n_subsets)]
        return list(col[4])

    def _read_signed(self, n):
        """203: sign bit + magnitude."""
        if not self.compressed:
            neg = self._u(1)
            mag = self._u(n - 1)
            return self._signed(neg, mag)
        neg = self._u(1)
        mag = self._u(n - 1)
        w = self._u(6)
        if self.env.truth(w != 0):
            raise RefMalformed('new reference values must agree in all subsets')
        v = self._signed(neg, mag)
        return v, [v] * self.n_subsets

    def _signed(self, neg, mag):
        if self.env.truth(neg == 1):
            if self.env.canonical_only and self.env.truth(mag == 0):
                # "negative zero" is a second spelling of 0: excluded where canonical streams are the subject
                self.env.ctx.assume(False)
            return -mag
        return mag

    # ------------------------------------------------------------------ the walk
    def run(self, ids):
        if self.compressed:
            self._reset_registers()
            self._walk(list(ids))
        else:
            for s in range(self.n_subsets):
                self.cur = s
                self._reset_registers()
                self._walk(list(ids))
        return self

    def _walk(self, ids):
        i = 0
        n = len(ids)
        while i < n:
            d = ids[i]
            i += 1
            F = d // 100000
            # replication: take the following X descriptors of *this* list
            take = None
            if F == 1:
                X, Y = (d // 1000) % 100, d % 1000
                if Y == 0:
                    if i >= n:
                        raise RefMalformed('delayed replication without factor')
                    factor_id = ids[i]
                    i += 1
                else:
                    factor_id = None
                take = ids[i:i + X]
                if len(take) != X:
                    raise RefMalformed('replication runs past the end of its list')
                i += X

            # 221: data not present
            if self.np_count:
                self.np_count -= 1
                if F == 0:
                    X = (d // 1000) % 100
                    if not (1 <= X <= 9 or X == 31):
                        continue
                elif F != 2:
                    raise RefUnsupported('221 span over a non-element descriptor')

            # 203 definition mode
            if self.newref_bits and F == 0:
                self._define_newref(d)
                continue

            # 206
            if self.skip_bits:
                label = 'S%05d' % d
                v = self._read_uint_field(self.skip_bits, lambda r: r, codeflag_width=self.skip_bits)
                self._emit(label, 'skipped', None, v)
                self.skip_bits = 0
                continue

            # bitmap definition state machine
            if self.bm_state:
                self._bitmap_step(d)

            if F == 0:
                self._element(d)
            elif F == 1:
                if factor_id is None:
                    count = Y
                else:
                    if factor_id in (31011, 31012):
                        raise RefUnsupported('delayed repetition')
                    self._element(factor_id)
                    fv = self._last_value_all_equal()
                    if fv is None:
                        raise RefMalformed('missing replication factor')
                    count = self.env.concrete(fv, 0, self.env.max_factor)
                for _ in range(count):
                    self._walk(list(take))
            elif F == 2:
                self._operator(d)
            else:
                if d not in self.D:
                    raise RefMalformed('unknown sequence %06d' % d)
                if self.inline_sequences:
                    # NCEP-style tables: a sequence may end in a replication whose members follow the sequence
                    ids[i:i] = list(self.D[d])
                    n = len(ids)
                else:
                    self._walk(list(self.D[d]))

    def _last_value_all_equal(self):
        if not self.compressed:
            return self.outs[self.cur].items[-1].value
        vals = [out.items[-1].value for out in self.outs]
        v0 = vals[0]
        for v in vals[1:]:
            if v0 is None or v is None:
                if not (v0 is None and v is None):
                    raise RefMalformed('replication factor differs between subsets of compressed data')
            elif self.env.truth(v != v0):
                raise RefMalformed('replication factor differs between subsets of compressed data')
        return v0

    # ------------------------------------------------------------------ elements
    def _define_newref(self, d):
        if d not in self.B:
            raise RefMalformed('unknown element %06d' % d)
        if self.B[d][1] == 'CCITT IA5':
            raise RefMalformed('new reference value for a character element')
        if self.compressed:
            v, vals = self._read_signed(self.newref_bits)
            self.newrefs[d] = v
            self._emit('%06d' % d, 'newref', d, vals)
        else:
            v = self._read_signed(self.newref_bits)
            self.newrefs[d] = v
            self._emit('%06d' % d, 'newref', d, v)

    def _element(self, d, marker=None, width_delta=0, ref_override=None):
        if d not in self.B:
            raise RefMalformed('unknown element %06d' % d)
        name, unit, scale, ref, nbits = self.B[d]
        X = (d // 1000) % 100

        if self.assoc and X != 31:
            n = sum(self.assoc)
            aid = marker if marker is not None else d
            v = self._read_uint_field(n, lambda r: r, codeflag_width=n)
            ai = self._n_items()
            for out in self._outs_now():
                out.assoc[ai] = ai + 1
                if self.assoc_meaning is not None:
                    out.meaning[ai] = self.assoc_meaning
            self._emit('A%05d' % aid, 'assoc', None, v)

        if marker is None:
            if X == 33:
                if self.qa == 1:
                    self.qa = 2
                if self.qa == 2:
                    self._link(self._n_items(), self._next_target())
            else:
                if self.qa == 2:
                    self.qa = 0
            label = '%06d' % d
            kind = 'element'
        else:
            if X != 33 and self.qa == 2:
                self.qa = 0   # a marker value is not quality information: the class-33 run is over
            label = '%s%05d' % (MARKER_PREFIX[marker], d)
            kind = 'marker'

        if marker is None:
            here = self._n_items()
            if d == 31021 and self.assoc:
                self.assoc_meaning = here
            elif d == 8023 and self.stat_waiting[224]:
                self.stat_meaning[224], self.stat_waiting[224] = here, False
            elif d == 8024 and self.stat_waiting[225]:
                self.stat_meaning[225], self.stat_waiting[225] = here, False

        if unit == 'CCITT IA5':
            nbytes = self.nbytes if self.nbytes else nbits // 8
            self._emit(label, kind, d, self._read_string(nbytes))
        elif unit in ('FLAG TABLE', 'CODE TABLE'):
            w = nbits + width_delta
            self._emit(label, kind, d, self._read_uint_field(w, lambda r: r, codeflag_width=w), enc=(w, 0, 1.0))
        else:
            w = nbits + width_delta + self.w_off + self.inc[0]
            s = scale + self.s_off + self.inc[1]
            if ref_override is not None:
                r = ref_override * self.inc[2]
            elif d in self.newrefs:
                r = self.newrefs[d] * self.inc[2]
            else:
                r = ref * self.inc[2]
            den = 1.0 * 10 ** s

            def conv(raw, r=r, den=den):
                v = raw + r
                if den != 1:
                    return sc.scaled(v, den)
                return v
            self._emit(label, kind, d, self._read_uint_field(w, conv), enc=(w, r, den))

    # ------------------------------------------------------------------ operators
    def _operator(self, d):
        op, y = d // 1000, d % 1000
        if op == 201:
            self.w_off = (y - 128) if y else 0
        elif op == 202:
            self.s_off = (y - 128) if y else 0
        elif op == 203:
            if y == 255:
                self.newref_bits = 0
            else:
                self.newref_bits = y
                if y == 0:
                    self.newrefs = {}
        elif op == 204:
            if y == 0:
                if not self.assoc:
                    raise RefMalformed('204000 without an open associated field')
                self.assoc.pop()
            else:
                self.assoc.append(y)
        elif op == 205:
            self._emit('%06d' % d, 'string205', None, self._read_string(y))
        elif op == 206:
            self.skip_bits = y
        elif op == 207:
            self.inc = (0, 0, 1) if y == 0 else ((10 * y + 2) // 3, y, 10 ** y)
        elif op == 208:
            self.nbytes = y
        elif op == 221:
            self.np_count = y
        elif op in (222, 223, 224, 225, 232):
            if y == 0:
                self.boundary = self._n_items()
                self.bm_state = 1
                self._emit('%06d' % d, 'opval', None, self._const(0))
                if op == 222:
                    self.qa = 1
                if op in (224, 225):
                    self.stat_waiting[op] = True
            elif y == 255 and op != 222:
                self._marker(d)
            else:
                raise RefUnsupported('operator %06d' % d)
        elif op == 235:
            if y != 0:
                raise RefUnsupported('operator %06d' % d)
            self.backrefs = None
            self.targets = None
            self.target_iter = None
        elif op == 236:
            self._emit('%06d' % d, 'opval', None, self._const(0))
        elif op == 237:
            if y == 0:
                if self.targets is None:
                    raise RefMalformed('237000 without a defined bitmap')
                self.target_iter = iter(self.targets)
            elif y != 255:
                raise RefUnsupported('operator %06d' % d)
            self._emit('%06d' % d, 'opval', None, self._const(0))
        else:
            raise RefUnsupported('operator %06d' % d)

    def _const(self, v):
        return [v] * self.n_subsets if self.compressed else v

    # ------------------------------------------------------------------ bitmaps
    def _bitmap_step(self, d):
        if self.bm_state == 1:
            if d == 236000:
                self.bm_reuse = True
                self.bm_state, self.bm_nbits = 2, 0
            elif d == 237000:
                self.bm_state = 0
            else:
                self.bm_reuse = False
                self.bm_state, self.bm_nbits = 2, 0
        elif self.bm_state == 2:
            if d == 31031:
                self.bm_state = 3
                self.bm_nbits += 1
        elif self.bm_state == 3:
            if d == 31031:
                self.bm_nbits += 1
            else:
                self._define_bitmap()
                self.bm_state = 0

    def _define_bitmap(self):
        items = self._items()
        n = self.bm_nbits
        bits = [it.value for it in items[len(items) - n:]]
        if self.compressed:
            for out in self.outs[1:]:
                for k in range(n):
                    a, b = bits[k], out.items[len(out.items) - n + k].value
                    if self.env.truth(a != b):
                        raise RefMalformed('bitmap differs between subsets of compressed data')
        if not self.backrefs:
            refs = []
            for idx in range(self.boundary - 1, -1, -1):
                if items[idx].kind in ('element', 'newref'):
                    refs.insert(0, idx)
                    if len(refs) == n:
                        break
            self.backrefs = refs
        if len(self.backrefs) != n:
            raise RefMalformed('bitmap length does not match the back-referenced elements')
        targets = []
        for bit, idx in zip(bits, self.backrefs):
            if self.env.truth(bit == 0):
                targets.append(idx)
        self.targets = targets
        self.target_iter = iter(targets)

    def _next_target(self):
        if self.target_iter is None:
            raise RefMalformed('attribute value without a bitmap')
        try:
            return next(self.target_iter)
        except StopIteration:
            raise RefMalformed('more attribute values than zero bits in the bitmap')

    def _marker(self, d):
        owner = self._next_target()
        # an associated field, if one is in force, precedes the marker value
        owner_eid = self._items()[owner].eid
        name, unit, scale, ref, nbits = self.B[owner_eid]
        attr_index = self._n_items() + (1 if (self.assoc and (owner_eid // 1000) % 100 != 31) else 0)
        self._link(attr_index, owner)
        if d // 1000 in (224, 225) and self.stat_meaning[d // 1000] is not None:
            for out in self._outs_now():
                out.meaning[attr_index] = self.stat_meaning[d // 1000]
        if d == 225255:
            self._element(owner_eid, marker=d, width_delta=1, ref_override=-(2 ** nbits))
        else:
            self._element(owner_eid, marker=d)


def reference_decode(ctx, ids, bits, n_subsets=1, compressed=False, pos=0, tables=None,
                     max_factor=3, max_diff_width=64, no_missing=False, inline_sequences=False, canonical_only=False, in_range=False,
                     string_width_exact=False):
    B, D = tables or load_tables()
    env = Env(ctx, max_factor=max_factor, max_diff_width=max_diff_width, no_missing=no_missing)
    env.canonical_only = canonical_only
    env.in_range = in_range
    env.string_width_exact = string_width_exact
    ref = Reference(B, D, env, bits, pos=pos, n_subsets=n_subsets, compressed=compressed)
    ref.inline_sequences = inline_sequences
    ref.run(ids)
    return ref


# ---------------------------------------------------------------------- comparison helpers

def same(a, b):
    """Equality of two decoded values (None / int / float / Quot / bytes / SymSeq)."""
    if a is None or b is None:
        return a is None and b is None
    if isinstance(a, (bytes, bytearray, sc.SymSeq)) or isinstance(b, (bytes, bytearray, sc.SymSeq)):
        if not isinstance(a, (bytes, bytearray, sc.SymSeq)) or not isinstance(b, (bytes, bytearray, sc.SymSeq)):
            return False
        if isinstance(b, sc.SymSeq):
            return bool(b == a)
        return bool(a == b)
    if isinstance(a, sc.Quot) or isinstance(b, sc.Quot):
        return bool(a == b) if isinstance(a, sc.Quot) else bool(b == a)
    if isinstance(a, (sc.Opaque,)) or isinstance(b, (sc.Opaque,)):
        return False
    if type(a) is float and type(b) is int or type(a) is int and type(b) is float:
        # the decoder yields int exactly when no scaling applies
        return False
    return bool(a == b)


def compare_subset(got_labels, got_values, got_links, out):
    """None if equal, else a dict describing the first difference."""
    exp_labels = [it.label for it in out.items]
    if len(got_labels) != len(exp_labels) or len(got_values) != len(exp_labels):
        return {'what': 'length', 'got': [len(got_labels), len(got_values)], 'exp': len(exp_labels),
                'got_labels': got_labels, 'exp_labels': exp_labels}
    for i, (g, e) in enumerate(zip(got_labels, exp_labels)):
        if g != e:
            return {'what': 'label', 'index': i, 'got': g, 'exp': e}
    for i, (g, it) in enumerate(zip(got_values, out.items)):
        if not same(g, it.value):
            return {'what': 'value', 'index': i, 'label': it.label, 'got': g, 'exp': it.value}
    if got_links is not None and dict(got_links) != out.links:
        return {'what': 'links', 'got': {str(k): v for k, v in dict(got_links).items()},
                'exp': {str(k): v for k, v in out.links.items()}}
    return None
