"""
Symbolic model of the third-party ``bitstring`` module (DESIGN 2.1).

Only the API surface that ``pybufrkit/bitops.py`` uses is modelled.  A harness
process puts this directory first on ``sys.path`` so that the lazy
``import bitstring`` inside the real ``bitops.py`` classes finds this module;
everything above it (BitStringBitReader, BitStringBitWriter, ...) is the real
code of /repo.

Bits are "terms": python ints 0/1 or z3 Int expressions constrained to 0..1.
A store is a list of segments; a segment carries its value term (when it was
written or read as one field) and/or its bit terms (created on demand, linked
to the value by one linear constraint).  The model is validated against the
real bitstring by vlib/conformance.py on every run.
"""
import z3

from vlib import symcore as sc
from crosshair.tracers import NoTracing

__model__ = True


class Error(Exception):
    def __init__(self, *params):
        self.msg = params[0] if params else ''
        self.params = params[1:]

    def __str__(self):
        if self.params:
            return self.msg.format(*self.params)
        return self.msg


class ReadError(Error, IndexError):
    pass


CreationError = ValueError
InterpretError = ValueError


class ByteAlignError(Error):
    pass


def _is_expr(x):
    return isinstance(x, z3.ExprRef)


class Seg(object):
    """n bits, MSB first.  val: int / z3 Int / None.  bits: list / None."""
    __slots__ = ('n', 'val', 'bits', 'label')

    def __init__(self, n, val=None, bits=None, label=None):
        self.n = n
        self.val = val
        self.bits = bits
        self.label = label

    def get_bits(self):
        if self.bits is None:
            n, val = self.n, self.val
            if _is_expr(val):
                name = 'sb%d_' % sc.path_serial()
                bits = [sc.fresh_int('%s%d' % (name, k), 0, 1) for k in range(n)]
                sc.add(val == _sum_bits(bits))
                self.bits = bits
            else:
                self.bits = [(val >> (n - 1 - k)) & 1 for k in range(n)]
        return self.bits


class LazySeg(Seg):
    """A region of n not-yet-constrained input bits; bit variables on demand."""
    __slots__ = ('vars',)

    def __init__(self, n, label):
        Seg.__init__(self, n, None, None, label)
        self.vars = {}

    def bit(self, k):
        v = self.vars.get(k)
        if v is None:
            v = self.vars[k] = sc.fresh_int('%s_b%d' % (self.label, k), 0, 1)
        return v

    def get_bits(self):
        return [self.bit(k) for k in range(self.n)]


def _sum_bits(bits):
    n = len(bits)
    const = 0
    terms = []
    for k, b in enumerate(bits):
        w = 1 << (n - 1 - k)
        if _is_expr(b):
            terms.append(b * w if w != 1 else b)
        else:
            const += b * w
    if not terms:
        return const
    e = terms[0] if len(terms) == 1 else z3.Sum(terms)
    return e + const if const else e


class Store(object):
    """An ordered list of segments, with an optional (symbolic) length limit."""

    def __init__(self):
        self.segs = []
        self.starts = []
        self.length = 0       # python int: structural length
        self.limit = None     # None or term: readable prefix length (truncation)
        self.cache = {}
        self.opts = {}

    def append(self, seg):
        if seg.n == 0:
            return
        self.starts.append(self.length)
        self.segs.append(seg)
        self.length += seg.n
        self.cache = {}

    def extend(self, other):
        for seg in other.segs:
            self.append(seg)

    def _find(self, pos):
        # index of the segment containing bit pos
        lo, hi = 0, len(self.starts) - 1
        while lo < hi:
            mid = (lo + hi + 1) // 2
            if self.starts[mid] <= pos:
                lo = mid
            else:
                hi = mid - 1
        return lo

    def bit_terms(self, pos, n):
        """Bit terms of [pos, pos+n)."""
        out = []
        if n == 0:
            return out
        i = self._find(pos)
        while n > 0:
            seg, st = self.segs[i], self.starts[i]
            off = pos - st
            take = min(n, seg.n - off)
            if isinstance(seg, LazySeg):
                out.extend(seg.bit(off + k) for k in range(take))
            else:
                out.extend(seg.get_bits()[off:off + take])
            pos += take
            n -= take
            i += 1
        return out

    def value(self, pos, n):
        """Unsigned value term of [pos, pos+n)."""
        key = (pos, n)
        v = self.cache.get(key)
        if v is not None:
            return v
        i = self._find(pos)
        seg = self.segs[i]
        if self.starts[i] == pos and seg.n == n and seg.val is not None:
            v = seg.val
        else:
            v = _sum_bits(self.bit_terms(pos, n))
        self.cache[key] = v
        return v

    def segments_between(self, a, b):
        """Segments covering exactly [a, b), splitting at the borders if needed."""
        out = []
        if b <= a:
            return out
        i = self._find(a)
        pos = a
        while pos < b:
            seg, st = self.segs[i], self.starts[i]
            off = pos - st
            take = min(b - pos, seg.n - off)
            if off == 0 and take == seg.n:
                out.append(seg)
            else:
                if isinstance(seg, LazySeg):
                    bits = [seg.bit(off + k) for k in range(take)]
                else:
                    bits = seg.get_bits()[off:off + take]
                out.append(Seg(take, _sum_bits(bits), bits))
            pos += take
            i += 1
        return out

    def replace(self, a, b, other):
        new = Store()
        new.opts = self.opts
        for seg in self.segments_between(0, a):
            new.append(seg)
        for seg in other.segs:
            new.append(seg)
        for seg in self.segments_between(b, self.length):
            new.append(seg)
        self.segs, self.starts, self.length, self.cache = new.segs, new.starts, new.length, {}


def _store_from_bytes(data):
    st = Store()
    for byte in bytes(data):
        st.append(Seg(8, byte))
    return st


class Source(object):
    """
    What a harness hands to BitStringBitReader in place of a bytes object:
    a sequence of concrete bytes and lazy symbolic regions, plus options.
    Build with ``Source.lazy(label, nbits)`` or ``Source.concat([...])``.
    """
    __bitsource__ = True

    def __init__(self, store):
        self.store = store

    @staticmethod
    def lazy(label, nbits, **opts):
        st = Store()
        st.append(LazySeg(nbits, label))
        st.opts = opts
        return Source(st)

    @staticmethod
    def from_parts(parts, **opts):
        """parts: bytes | ('lazy', label, nbits) | ('val', term, nbits) | Store"""
        st = Store()
        for p in parts:
            if isinstance(p, (bytes, bytearray)):
                for byte in bytes(p):
                    st.append(Seg(8, byte))
            elif isinstance(p, Store):
                st.extend(p)
            elif p[0] == 'lazy':
                st.append(LazySeg(p[2], p[1]))
            elif p[0] == 'val':
                st.append(Seg(p[2], p[1]))
            else:
                raise TypeError(p)
        st.opts = opts
        return Source(st)


def _unwrap_value(text):
    """the text after '=' in a creation token -> python int / z3 expr / bool-ish"""
    obj = sc.resolve_token(text)
    if obj is not None:
        return obj
    return text


class Bits(object):
    def __init__(self, auto=None, length=None, bytes=None, uint=None, uintbe=None, **kw):
        with NoTracing():
            self._st = Store()
            if kw:
                raise CreationError('model: unsupported Bits initialiser %r' % sorted(kw))
            if auto is not None:
                _append_auto(self._st, auto)
            elif bytes is not None:
                if getattr(bytes, '__bitsource__', False):
                    self._st = bytes.store
                else:
                    for t in sc.as_byte_terms(bytes):
                        self._st.append(Seg(8, t))
            elif uint is not None:
                _append_uint(self._st, 'uint', length, sc.unwrap(uint))
            elif uintbe is not None:
                _append_uint(self._st, 'uintbe', length, sc.unwrap(uintbe))

    @property
    def len(self):
        return self._st.length

    def __len__(self):
        return self._st.length

    @property
    def bytes(self):
        with NoTracing():
            if self._st.length % 8 != 0:
                raise InterpretError('Cannot interpret as bytes unambiguously - not multiple of 8 bits.')
            terms = [self._st.value(p, 8) for p in range(0, self._st.length, 8)]
            if any(_is_expr(t) for t in terms):
                return sc.SymSeq(terms)
            return _bytes(terms)

    @property
    def bin(self):
        with NoTracing():
            bits = self._st.bit_terms(0, self._st.length)
            if any(_is_expr(b) for b in bits):
                return SymBin(bits)
            return ''.join('1' if b else '0' for b in bits)


_bytes = bytes


def _check_len(kind, n):
    if n is None or n == 0:
        raise CreationError('A non-zero length must be specified with a %s initialiser.' % kind)
    if n < 0:
        raise CreationError("Can't parse token")
    if kind == 'uintbe' and n % 8 != 0:
        raise CreationError("A length of %d was supplied for the 'uintbe' dtype which is not one of its "
                            "possible lengths (must be one of (8, 16, ...))." % n)


def _append_uint(st, kind, n, v):
    _check_len(kind, n)
    if _is_expr(v):
        if sc.fork(v < 0):
            raise CreationError('%s cannot be initialised with a negative number.' % kind)
        if sc.fork(v >= (1 << n)):
            raise CreationError('value is too large an unsigned integer for a bitstring of length %d.' % n)
    else:
        if v < 0:
            raise CreationError('%s cannot be initialised with a negative number.' % kind)
        if v >= (1 << n):
            raise CreationError('%d is too large an unsigned integer for a bitstring of length %d. '
                                'The allowed range is [0, %d].' % (v, n, (1 << n) - 1))
    st.append(Seg(n, v))


def _parse_int_text(text):
    # bitstring parses with int(text): rejects '1.0', 'None'; accepts surrounding blanks
    return int(text)


def _append_auto(st, s):
    """A creation token such as 'uint:12=5', 'bool=True', 'bin:3=010'."""
    if isinstance(s, Bits):
        st.extend(s._st)
        return
    if not isinstance(s, str):
        raise CreationError('model: unsupported auto initialiser %r' % type(s))
    if '=' not in s:
        raise CreationError("model: token without value %r" % s)
    head, text = s.split('=', 1)
    if ':' in head:
        kind, ntext = head.split(':', 1)
        nobj = sc.resolve_token(ntext)
        if nobj is not None:
            n = sc.unwrap(nobj)
            if _is_expr(n):
                n = sc.concretize(n, 0, 64)
        else:
            try:
                n = int(ntext)
            except ValueError:
                raise CreationError("Can't parse token %r" % s)
    else:
        kind, n = head, None
    kind = kind.strip()
    obj = _unwrap_value(text)
    if kind in ('uint', 'uintbe'):
        if isinstance(obj, str):
            v = _parse_int_text(obj)
        elif isinstance(obj, (sc.Quot, sc.FInt, sc.Opaque)):
            raise CreationError('invalid literal for int() with base 10')
        else:
            v = sc.unwrap(obj)
        _append_uint(st, kind, n, v)
    elif kind == 'bool':
        if isinstance(obj, str):
            t = obj.strip()
            if t in ('True', '1'):
                v = 1
            elif t in ('False', '0'):
                v = 0
            else:
                raise CreationError('Cannot initialise boolean with %s.' % t)
        else:
            v = sc.unwrap(obj)
            if isinstance(obj, sc.SymbolicInt):
                if sc.fork(z3.Or(v < 0, v > 1)):
                    raise CreationError('Cannot initialise boolean.')
        st.append(Seg(1, v))
    elif kind == 'bin':
        if isinstance(obj, SymBin):
            bits = obj.bits
        elif isinstance(obj, str):
            t = obj.strip()
            if t.startswith('0b'):
                t = t[2:]
            if any(c not in '01' for c in t):
                raise CreationError('Invalid character in bin initialiser %s' % t)
            bits = [1 if c == '1' else 0 for c in t]
        else:
            raise CreationError('model: unsupported bin value')
        if n is not None and n != len(bits):
            raise CreationError("Dtype has a length of %d bits, but value has %d bits." % (n, len(bits)))
        if bits:
            st.append(Seg(len(bits), _sum_bits(bits), list(bits)))
    else:
        raise CreationError('model: unsupported token kind %r' % kind)


class SymBin(object):
    """A string of '0'/'1' characters whose characters are bit terms (computed on demand)."""
    __slots__ = ('_bits', '_lazy', 'n')

    def __init__(self, bits=None, lazy=None, n=None):
        self._bits = list(bits) if bits is not None else None
        self._lazy = lazy
        self.n = len(self._bits) if bits is not None else n

    @property
    def bits(self):
        if self._bits is None:
            st, pos = self._lazy
            self._bits = st.bit_terms(pos, self.n)
        return self._bits

    def __len__(self):
        return self.n

    def __eq__(self, other):
        if isinstance(other, str):
            if len(other) != len(self.bits) or any(c not in '01' for c in other):
                return False
            other = SymBin([1 if c == '1' else 0 for c in other])
        if not isinstance(other, SymBin) or len(other.bits) != len(self.bits):
            return False
        with NoTracing():
            conj = []
            for a, b in zip(self.bits, other.bits):
                if _is_expr(a) or _is_expr(b):
                    conj.append(a == b)
                elif a != b:
                    return False
            if not conj:
                return True
            return sc.fork(z3.And(*conj) if len(conj) > 1 else conj[0])

    def __ne__(self, other):
        return not self.__eq__(other)

    __hash__ = None

    def __format__(self, spec):
        return sc.token_for(self)

    def __realize_record__(self):
        return ''.join('1' if sc.model_value(b) else '0' for b in self.bits)


sc._TOKENISED = sc._TOKENISED + (SymBin,)


class BitStream(Bits):
    def __init__(self, auto=None, length=None, bytes=None, **kw):
        Bits.__init__(self, auto=auto, length=length, bytes=bytes, **kw)
        self._pos = 0

    @property
    def pos(self):
        return self._pos

    @pos.setter
    def pos(self, v):
        self._pos = v

    def __iadd__(self, other):
        with NoTracing():
            if isinstance(other, Bits):
                self._st.extend(other._st)
            else:
                _append_auto(self._st, other)
        return self

    def __setitem__(self, key, value):
        with NoTracing():
            if not isinstance(key, slice) or key.step is not None:
                raise TypeError('model: only plain slices are supported')
            a, b, _ = key.indices(self._st.length)
            if not isinstance(value, Bits):
                tmp = Store()
                _append_auto(tmp, value)
            else:
                tmp = value._st
            self._st.replace(a, max(a, b), tmp)

    @property
    def bytepos(self):
        if self._pos % 8:
            raise ByteAlignError('Not byte aligned when using bytepos property.')
        return self._pos // 8

    @bytepos.setter
    def bytepos(self, v):
        self._pos = v * 8

    def overwrite(self, bs, pos=None):
        """Overwrite with bs at pos (default: the current position); the position moves to the end of bs."""
        with NoTracing():
            if not isinstance(bs, Bits):
                tmp = Bits(auto=bs)
            else:
                tmp = bs
            n = tmp._st.length
            if n == 0:
                return
            at = self._pos if pos is None else pos
            if at < 0:
                at += self._st.length
            if at < 0 or at > self._st.length:
                raise ValueError('Overwrite starts outside boundary of bitstring.')
            # (the real library extends the bitstring when the overwrite runs past its end)
            self._st.replace(at, min(at + n, self._st.length), tmp._st)
            self._pos = at + n

    def _need(self, n):
        """Raise ReadError unless n more bits are available."""
        st = self._st
        avail_struct = st.length - self._pos
        if n > avail_struct:
            raise ReadError('Needed a length of at least {0} bits, but only {1} bits were available.',
                            n, avail_struct)
        if st.limit is not None:
            lim = st.limit
            if _is_expr(lim):
                if sc.fork(self._pos + n > lim):
                    raise ReadError('Needed a length of at least {0} bits, but not enough bits were available.', n)
            elif self._pos + n > lim:
                raise ReadError('Needed a length of at least {0} bits, but only {1} bits were available.',
                                n, lim - self._pos)

    def read(self, fmt):
        with NoTracing():
            return self._read(fmt)

    def _read(self, fmt):
        st = self._st
        if ':' in fmt:
            kind, ntext = fmt.split(':', 1)
            nobj = sc.resolve_token(ntext)
            if nobj is not None:
                n = sc.unwrap(nobj)
                if _is_expr(n):
                    n = sc.concretize(n, 0, st.opts.get('max_sym_width', 64))
            else:
                try:
                    n = int(ntext)
                except ValueError:
                    raise ValueError("Can't parse token %r" % fmt)
                if n < 0:
                    raise ValueError("Can't parse 'name[:]length' token %r." % fmt)
        else:
            kind, n = fmt, None
        if kind == 'bool':
            try:
                self._need(1)
            except ReadError:
                # the real library (4.4) reports a bool read at the end of data as a ValueError
                raise InterpretError("'bool' dtypes must have a length of 1, but received a length of 0.")
            b = st.value(self._pos, 1)
            self._pos += 1
            if _is_expr(b):
                return sc.wrap_bool(b == 1)
            return bool(b)
        if kind in ('uint', 'uintbe'):
            if kind == 'uintbe' and n % 8 != 0:
                raise ValueError("A length of %d was supplied for the 'uintbe' dtype which is not one of its "
                                 "possible lengths (must be one of (8, 16, ...))." % n)
            self._need(n)
            if n == 0:
                raise InterpretError('Cannot interpret a zero length bitstring as an integer.')
            v = st.value(self._pos, n)
            self._pos += n
            cw = st.opts.get('concretize_width_fields')
            if cw is not None and n == 6 and _is_expr(v):
                v = sc.concretize(v, 0, cw)
            return sc.wrap(v)
        if kind == 'bin':
            self._need(n)
            if n > 64:
                ret = SymBin(lazy=(st, self._pos), n=n)
                self._pos += n
                return ret
            bits = st.bit_terms(self._pos, n)
            self._pos += n
            if any(_is_expr(b) for b in bits):
                return SymBin(bits)
            return ''.join('1' if b else '0' for b in bits)
        if kind == 'bytes':
            self._need(n * 8)
            terms = [st.value(self._pos + 8 * k, 8) for k in range(n)]
            self._pos += 8 * n
            if any(_is_expr(t) for t in terms):
                alphabet = st.opts.get('string_alphabet')
                if alphabet is not None:
                    out = []
                    for t in terms:
                        if _is_expr(t):
                            for c in alphabet:
                                if sc.fork(t == c):
                                    t = c
                                    break
                            else:
                                sc.prune()
                        out.append(t)
                    return _bytes(out)
                return sc.SymSeq(terms)
            return _bytes(terms)
        raise ValueError('model: unsupported read token %r' % fmt)
