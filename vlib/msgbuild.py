"""
Independent assembly of whole BUFR messages from FM-94 section layouts (octet tables of
editions 2, 3 and 4 written out here - nothing is read from pybufrkit/definitions).

``message_parts`` returns a list of parts for ``ctx.source_from_parts`` / ``SymBytes.from_parts``:
bytes, ('val', term, nbits) and ('lazy', label, nbits) entries, so header fields and the data
section may be solver terms.  ``message_bytes`` is the concrete convenience form.
"""

S1_OCTETS = {2: 18, 3: 18, 4: 22}


def _val(v, nbits):
    if isinstance(v, int):
        return ('val', v, nbits)
    return ('val', v, nbits)   # z3 term / unwrapped symbolic


def section1(edition, sec2=False, centre=0, subcentre=0, category=0, mtv=33, ltv=0, master=0, update=0,
             isub=0, lsub=0, year=None, month=1, day=2, hour=3, minute=4, second=5, length=None):
    """parts of section 1 (without surplus); every numeric argument may be a solver term"""
    L = S1_OCTETS[edition] if length is None else length
    flag = 0x80 if sec2 else 0
    if edition == 4:
        year = 2020 if year is None else year
        return [_val(L, 24), _val(master, 8), _val(centre, 16), _val(subcentre, 16), _val(update, 8), bytes([flag]),
                _val(category, 8), _val(isub, 8), _val(lsub, 8), _val(mtv, 8), _val(ltv, 8), _val(year, 16),
                _val(month, 8), _val(day, 8), _val(hour, 8), _val(minute, 8), _val(second, 8)]
    year = 20 if year is None else year
    if edition == 3:
        return [_val(L, 24), _val(master, 8), _val(subcentre, 8), _val(centre, 8), _val(update, 8), bytes([flag]),
                _val(category, 8), _val(lsub, 8), _val(mtv, 8), _val(ltv, 8), _val(year, 8),
                _val(month, 8), _val(day, 8), _val(hour, 8), _val(minute, 8), _val(second, 8)]
    return [_val(L, 24), _val(master, 8), _val(centre, 16), _val(update, 8), bytes([flag]),
            _val(category, 8), _val(lsub, 8), _val(mtv, 8), _val(ltv, 8), _val(year, 8),
            _val(month, 8), _val(day, 8), _val(hour, 8), _val(minute, 8), _val(second, 8)]


def _even(octets, edition):
    return octets + 1 if (edition <= 3 and octets % 2) else octets


def layout(ids, n_data_bits, edition=4, sec2_octets=None):
    """Octet extents: dict section -> octets, and the total."""
    ext = {1: S1_OCTETS[edition]}
    if sec2_octets is not None:
        ext[2] = _even(4 + sec2_octets, edition)
    ext[3] = _even(7 + 2 * len(ids), edition)
    ext[4] = _even(4 + (n_data_bits + 7) // 8, edition)
    total = 8 + sum(ext.values()) + 4
    return ext, total


def message_parts(ids, data_parts, n_data_bits, n_subsets=1, compressed=False, edition=4, sec2=None, observed=True,
                  total=None, **hdr):
    """
    data_parts: list of parts making up exactly n_data_bits bits of section 4 content.
    sec2: None or bytes (local use octets).  total: override of the section 0 length field.
    """
    ext, tot = layout(ids, n_data_bits, edition, None if sec2 is None else len(sec2))
    parts = [b'BUFR', _val(tot if total is None else total, 24), bytes([edition])]
    parts += section1(edition, sec2=sec2 is not None, **hdr)
    if sec2 is not None:
        parts += [_val(ext[2], 24), b'\0', bytes(sec2)]
        fill = ext[2] - 4 - len(sec2)
        if fill:
            parts.append(b'\0' * fill)
    flags = (0x80 if observed else 0) | (0x40 if compressed else 0)
    parts += [_val(ext[3], 24), b'\0', _val(n_subsets, 16), bytes([flags])]
    first_descriptor = len(parts)
    for d in ids:
        f, x, y = d // 100000, (d // 1000) % 100, d % 1000
        parts.append(bytes([(f << 6) | x, y]))
    fill = ext[3] - 7 - 2 * len(ids)
    if fill:
        parts.append(b'\0' * fill)
    parts += [_val(ext[4], 24), b'\0']
    parts += list(data_parts)
    pad = (ext[4] - 4) * 8 - n_data_bits
    if pad:
        parts.append(('val', 0, pad))
    parts.append(b'7777')
    parts = Parts(parts)
    parts.first_descriptor = first_descriptor
    return parts, tot


class Parts(list):
    """part list with a few positions remembered (for damage injection)"""
    first_descriptor = None


def bits_to_parts(bits):
    """list of 0/1 -> parts (whole bytes where possible)"""
    out = []
    n = len(bits)
    k = 0
    whole = bytearray()
    while k + 8 <= n:
        b = 0
        for i in range(8):
            b = (b << 1) | bits[k + i]
        whole.append(b)
        k += 8
    if whole:
        out.append(bytes(whole))
    if k < n:
        v = 0
        for i in range(k, n):
            v = (v << 1) | bits[i]
        out.append(('val', v, n - k))
    return out


def parts_to_bytes(parts):
    """concrete parts -> bytes"""
    acc, nb = 0, 0
    for p in parts:
        if isinstance(p, (bytes, bytearray)):
            for byte in bytes(p):
                acc = (acc << 8) | byte
                nb += 8
        elif p[0] == 'val':
            acc = (acc << p[2]) | int(p[1])
            nb += p[2]
        else:
            raise TypeError('not concrete: %r' % (p,))
    if nb % 8:
        raise ValueError('not a whole number of octets')
    return acc.to_bytes(nb // 8, 'big')


def message_bytes(ids, bits, **kw):
    parts, tot = message_parts(ids, bits_to_parts(bits), len(bits), **kw)
    return parts_to_bytes(parts)
