"""Helpers to drive the real pybufrkit units (drive the unit, not the program)."""
from pybufrkit.bufr import BufrMessage, SectionParameter
from pybufrkit.decoder import Decoder
from pybufrkit.encoder import Encoder

_DECODERS = {}


def param(name, value, nbits=8, typ='uint'):
    return SectionParameter(name, nbits, typ, None, True, value)


def make_message(ids, n_subsets=1, compressed=False, master_table_version=33,
                 local_table_version=0, centre=0, subcentre=0, edition=4):
    """A BufrMessage carrying just what process_template_data needs."""
    m = BufrMessage('<harness>')
    m.edition = param('edition', edition)
    m.master_table_number = param('master_table_number', 0)
    m.originating_centre = param('originating_centre', centre, 16)
    m.originating_subcentre = param('originating_subcentre', subcentre, 16)
    m.master_table_version = param('master_table_version', master_table_version)
    m.local_table_version = param('local_table_version', local_table_version)
    m.n_subsets = param('n_subsets', n_subsets, 16)
    m.is_observation = param('is_observation', True, 1, 'bool')
    m.is_compressed = param('is_compressed', compressed, 1, 'bool')
    m.unexpanded_descriptors = param('unexpanded_descriptors', list(ids), 0, 'unexpanded_descriptors')
    return m


def decoder(compiled=None):
    key = ('d', compiled)
    if key not in _DECODERS:
        _DECODERS[key] = Decoder(compiled_template_cache_max=compiled)
    return _DECODERS[key]


def encoder(compiled=None, **kw):
    key = ('e', compiled, tuple(sorted(kw.items())))
    if key not in _DECODERS:
        _DECODERS[key] = Encoder(compiled_template_cache_max=compiled, **kw)
    return _DECODERS[key]


def decode_template_data(ctx, ids, handle, n_subsets=1, compressed=False, compiled=None, **kw):
    """Run the real Decoder.process_template_data over a harness source."""
    m = make_message(ids, n_subsets, compressed, **kw)
    reader = ctx.reader(handle)
    td = decoder(compiled).process_template_data(m, reader)
    return td, reader.get_pos(), m


def encode_template_data(ctx, ids, values_all_subsets, n_subsets=1, compressed=False, compiled=None, **kw):
    """Run the real Encoder.process_template_data; returns (writer, template_data)."""
    m = make_message(ids, n_subsets, compressed, **kw)
    writer = ctx.writer()
    p = param('template_data', values_all_subsets, 0, 'template_data')
    encoder(compiled).process_template_data(m, writer, p)
    return writer, p.value, m


def labels(descriptors):
    return [str(d) for d in descriptors]


def warm_tables(master_table_version=33, local_table_version=0, centre=0, subcentre=0):
    """Load a table group outside tracing (json loading under tracing is very slow)."""
    from pybufrkit.tables import TableGroupCacheManager
    from pybufrkit.constants import DEFAULT_TABLES_DIR
    return TableGroupCacheManager.get_table_group(
        tables_root_dir=DEFAULT_TABLES_DIR, master_table_number=0, originating_centre=centre,
        originating_subcentre=subcentre, master_table_version=master_table_version,
        local_table_version=local_table_version, normalize=1)
