"""
Harness process entry point (one harness per process, DESIGN 2.8).

  python -m vlib.runh explore <module> <harness> [--params JSON] [--timeout S] [--path-timeout S]
  python -m vlib.runh replay  <module> <harness> --record FILE [--params JSON]

Prints one JSON object (last line of stdout, prefixed RESULT:).
VERIF_MUTATE="pybufrkit.decoder::old text-->>new text" applies a canary mutation
to the module source in memory (never on disk) before anything imports it.
"""
import argparse
import importlib
import importlib.abc
import importlib.machinery
import importlib.util
import json
import os
import sys
import time

VERIF_DIR = os.path.dirname(os.path.dirname(os.path.abspath(__file__)))
REPO_DIR = os.environ.get('VERIF_REPO', '/repo')


class _MutatingLoader(importlib.machinery.SourceFileLoader):
    def __init__(self, fullname, path, old, new):
        super().__init__(fullname, path)
        self._old, self._new = old, new

    def get_data(self, path):
        data = super().get_data(path)
        if path.endswith('.py'):
            text = data.decode('utf-8')
            if self._old not in text:
                raise ImportError('canary mutation: text not found in %s: %r' % (path, self._old))
            return text.replace(self._old, self._new, 1).encode('utf-8')
        return data

    def get_code(self, fullname):
        # never use / write bytecode caches for the mutated module
        source_path = self.get_filename(fullname)
        return self.source_to_code(self.get_data(source_path), source_path)


class _MutatingFinder(importlib.abc.MetaPathFinder):
    def __init__(self, target, old, new):
        self.target, self.old, self.new = target, old, new

    def find_spec(self, fullname, path, target=None):
        if fullname != self.target:
            return None
        for finder in sys.meta_path:
            if finder is self:
                continue
            spec = finder.find_spec(fullname, path, target) if hasattr(finder, 'find_spec') else None
            if spec is not None and spec.origin and spec.origin.endswith('.py'):
                spec.loader = _MutatingLoader(fullname, spec.origin, self.old, self.new)
                return spec
        return None


def install_mutation(spec_text):
    target, rest = spec_text.split('::', 1)
    old, new = rest.split('-->>', 1)
    sys.meta_path.insert(0, _MutatingFinder(target, old, new))


def setup_paths(mode):
    sys.dont_write_bytecode = True
    for p in (VERIF_DIR, REPO_DIR):
        if p not in sys.path:
            sys.path.insert(0, p)
    # make sure /repo wins over any installed pybufrkit
    sys.path.remove(REPO_DIR)
    sys.path.insert(0, REPO_DIR)
    if mode == 'explore':
        import vlib.model.bitstring as M
        sys.modules['bitstring'] = M


def main(argv=None):
    ap = argparse.ArgumentParser()
    ap.add_argument('mode', choices=['explore', 'replay'])
    ap.add_argument('module')
    ap.add_argument('harness')
    ap.add_argument('--params', default='{}')
    ap.add_argument('--record')
    ap.add_argument('--timeout', type=float, default=120.0)
    ap.add_argument('--path-timeout', type=float, default=30.0)
    ap.add_argument('--max-cex', type=int, default=8)
    ns = ap.parse_args(argv)

    mut = os.environ.get('VERIF_MUTATE')
    if mut:
        install_mutation(mut)
    setup_paths(ns.mode)
    params = json.loads(ns.params)
    t0 = time.time()
    out = {'module': ns.module, 'harness': ns.harness, 'params': params, 'mode': ns.mode}
    try:
        mod = importlib.import_module(ns.module)
        fn = getattr(mod, ns.harness)
        if hasattr(mod, 'prepare'):
            mod.prepare(params)   # table loading etc. happens outside the traced region
        if ns.mode == 'explore':
            from vlib import engine
            from vlib.ctx import ExploreCtx
            res = engine.explore(fn, lambda: ExploreCtx(params), per_path_timeout=ns.path_timeout,
                                 timeout=ns.timeout, max_cex=ns.max_cex,
                                 format_tokens=getattr(mod, 'FORMAT_TOKENS', True))
            out.update(res)
        else:
            from vlib.ctx import ReplayCtx, ReplayOutOfBound, from_jsonable
            record = json.load(open(ns.record))
            ctx = ReplayCtx(record, params)
            try:
                ret = fn(ctx)
                out['reproduced'] = ret is not None
                out['violation'] = ctx.realize_record(ret) if ret is not None else None
            except ReplayOutOfBound:
                out['reproduced'] = False
                out['violation'] = None
                out['note'] = 'record outside harness bound'
    except BaseException as e:  # noqa
        import traceback
        out['verdict'] = 'error'
        out['errors'] = ['%s: %s' % (type(e).__name__, e), traceback.format_exc()[-3000:]]
    out['wall_total_s'] = round(time.time() - t0, 3)
    sys.stdout.flush()
    print('RESULT:' + json.dumps(out, default=repr))


if __name__ == '__main__':
    main()
