"""
Pool of whole messages for the stream properties (C11, C12, C13, C17): each entry is assembled independently
(vlib/msgbuild.py) in a given edition, with a data section of solver bits and a solver-valued data category.
"""
from vlib import msgbuild, fm94, symcore as sc

# name -> (ids, edition, n_subsets, compressed, sec2 octets or None)
POOL = {
    'A': dict(ids=[1004, 205004], edition=4, n_subsets=1, compressed=False, sec2=None),
    'B': dict(ids=[2001, 1004], edition=3, n_subsets=2, compressed=False, sec2=b'\x01\x02'),
    'C': dict(ids=[1004], edition=4, n_subsets=2, compressed=True, sec2=None),
    'D': dict(ids=[12001], edition=2, n_subsets=1, compressed=False, sec2=None),
    # the same element with associated fields of different widths (what a per-coder memo of descriptors would confuse)
    'E': dict(ids=[204001, 31021, 1004, 204000], edition=4, n_subsets=1, compressed=False, sec2=None),
    'F': dict(ids=[204003, 31021, 1004, 204000, 1004], edition=4, n_subsets=1, compressed=False, sec2=None),
}


class Msg(object):
    """One message of a stream: its parts, byte length and the FM-94 reading of its data."""

    def __init__(self, name, parts, nbytes, ref, category, data_label, n_data_bits, spec):
        self.name, self.parts, self.nbytes, self.ref, self.category = name, parts, nbytes, ref, category
        self.data_label, self.n_data_bits, self.spec = data_label, n_data_bits, spec


def build(ctx, name, tag, category=None, **override):
    """
    Build pool message `name`; its data bits are a fresh lazy region labelled D<tag>.
    Returns Msg.  The reference walk over the data decides how many bits the data section has.
    """
    spec = dict(POOL[name])
    spec.update(override)
    label = 'D' + tag
    probe = ctx.source(label, 96)
    ref = fm94.reference_decode(ctx, spec['ids'], probe, n_subsets=spec['n_subsets'], compressed=spec['compressed'],
                                max_factor=1, max_diff_width=1, no_missing=True, in_range=True)
    n = ref.pos
    if category is None:
        category = ctx.int('cat' + tag, 0, 255)
        # data category 11 marks a message that *defines BUFR tables* (processed as such by the scanner): C20's subject
        ctx.assume(category != 11)
    parts, total = msgbuild.message_parts(spec['ids'], [probe], n, n_subsets=spec['n_subsets'], compressed=spec['compressed'],
                                          edition=spec['edition'], sec2=spec['sec2'], category=sc.unwrap(category),
                                          mtv=spec.get('mtv', 33))
    return Msg(name, parts, total, ref, category, label, n, spec)


def flatten_parts(ctx, parts_list, **opts):
    """
    A list of parts (bytes, ('val', term, n), ('lazy', label, n), source handles standing for the first n bits they
    were consumed for, given as (handle, n)) -> input object for the decoder (SymBytes in explore, bytes in replay).
    """
    if ctx.mode == 'explore':
        from vlib.model import bitstring as M
        from vlib.symbytes import SymBytes
        from crosshair.tracers import NoTracing
        with NoTracing():
            st = M.Store()
            for q in parts_list:
                if isinstance(q, (bytes, bytearray)):
                    for byte in bytes(q):
                        st.append(M.Seg(8, byte))
                elif isinstance(q, tuple) and q[0] == 'val':
                    st.append(M.Seg(q[2], q[1]))
                elif isinstance(q, tuple) and q[0] == 'src':
                    for seg in q[1].src.store.segments_between(0, q[2]):
                        st.append(seg)
                else:
                    raise TypeError(q)
            if st.length % 8:
                raise ValueError('stream is not a whole number of octets')
            if opts:
                st.opts = dict(opts)    # e.g. string_alphabet: character reads fork over a finite alphabet
            return SymBytes(st)
    conc = []
    for q in parts_list:
        if isinstance(q, tuple) and q[0] == 'src':
            conc.extend(msgbuild.bits_to_parts([q[1].peek(k, 1) for k in range(q[2])]))
        else:
            conc.append(q)
    return msgbuild.parts_to_bytes(conc)


def msg_parts(m):
    """parts of a Msg with the data source spliced in"""
    out = []
    for q in m.parts:
        if isinstance(q, (bytes, bytearray)) or (isinstance(q, tuple) and q[0] == 'val'):
            out.append(q)
        else:   # the source handle placed by build()
            out.append(('src', q, m.n_data_bits))
    return out


def separator(ctx, tag, lengths=(0, 1, 4)):
    """A separator of solver-chosen length whose bytes are solver variables and which does not contain 'BUFR'."""
    k = lengths[ctx.choice('seplen' + tag, len(lengths))]
    if k == 0:
        return [], 0
    h = ctx.source('sep' + tag, 8 * k)
    if ctx.mode == 'explore':
        import z3
        for i in range(k - 3):
            b = [sc.unwrap(h.peek(8 * (i + j), 8)) for j in range(4)]
            sc.add(z3.Not(z3.And(b[0] == 0x42, b[1] == 0x55, b[2] == 0x46, b[3] == 0x52)))
    return [('src', h, 8 * k)], k
