"""
SymBytes: what a harness hands to Decoder.process / generate_bufr_message in
place of a ``bytes`` object when some of the bytes are solver terms.

It is a byte-aligned view [start, stop) on a bitstring-model Store and supports
exactly what pybufrkit does with its input string: ``len``, ``find(signature
[, start])``, slicing, equality, and being given to ``bitstring.BitStream(bytes=...)``
(the model accepts anything with ``__bitsource__`` / ``.store``).  ``find`` and
``==`` decide byte comparisons with the solver (fork per candidate position).
"""
import z3

from vlib import symcore as sc
from vlib.model import bitstring as M
from crosshair.tracers import NoTracing


class SymBytes(object):
    __bitsource__ = True

    def __init__(self, store, start=0, stop=None):
        self._root = store
        self._start = start
        self._stop = (store.length // 8) if stop is None else stop
        self._view = None

    # ---- construction helpers
    @staticmethod
    def from_parts(parts, **opts):
        return SymBytes(M.Source.from_parts(parts, **opts).store)

    # ---- the model's BitStream takes .store
    @property
    def store(self):
        with NoTracing():
            if self._start == 0 and self._stop * 8 == self._root.length:
                return self._root
            if self._view is None:
                st = M.Store()
                for seg in self._root.segments_between(self._start * 8, self._stop * 8):
                    st.append(seg)
                st.opts = self._root.opts
                if self._root.limit is not None:
                    st.limit = self._root.limit - self._start * 8
                self._view = st
            return self._view

    def __len__(self):
        return max(0, self._stop - self._start)

    def term(self, i):
        """byte i of the view as python int or z3 term"""
        return self._root.value((self._start + i) * 8, 8)

    def __getitem__(self, key):
        with NoTracing():
            n = len(self)
            if isinstance(key, slice):
                a, b, step = key.indices(n)
                if step != 1:
                    raise TypeError('SymBytes: only plain slices')
                b = max(a, b)
                return SymBytes(self._root, self._start + a, self._start + b)
            if key < 0:
                key += n
            if not 0 <= key < n:
                raise IndexError('index out of range')
            return sc.wrap(self.term(key))

    def find(self, sub, start=0, end=None):
        with NoTracing():
            sub = bytes(sub)
            n = len(self)
            if start < 0:
                start = max(0, n + start)
            stop = n if end is None else min(end, n)
            m = len(sub)
            for i in range(start, stop - m + 1):
                conj = []
                ok = True
                for k in range(m):
                    t = self.term(i + k)
                    if isinstance(t, z3.ExprRef):
                        conj.append(t == sub[k])
                    elif t != sub[k]:
                        ok = False
                        break
                if not ok:
                    continue
                if not conj or sc.fork(z3.And(*conj) if len(conj) > 1 else conj[0]):
                    return i
            return -1

    def _terms(self):
        return [self.term(i) for i in range(len(self))]

    def __eq__(self, other):
        with NoTracing():
            if isinstance(other, SymBytes):
                other = other._terms()
            elif isinstance(other, sc.SymSeq):
                other = list(other.items)
            elif isinstance(other, (bytes, bytearray)):
                other = list(other)
            else:
                return False
            return bool(sc.SymSeq(self._terms()) == sc.SymSeq(other))

    def __ne__(self, other):
        return not self.__eq__(other)

    __hash__ = None

    def __repr__(self):
        return 'SymBytes(%d)' % len(self)

    def __realize_record__(self):
        return bytes(sc.model_value(t) for t in self._terms())


def as_terms(x):
    """bytes / SymSeq / SymBytes -> list of byte terms"""
    if isinstance(x, SymBytes):
        return x._terms()
    return sc.as_byte_terms(x)
