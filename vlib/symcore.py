"""
CrossHair glue (DESIGN 2.2-2.4): solver variables on demand, explicit forks,
format tokens, the Quot float abstraction, counters.

Everything here is a no-op / plain Python when no CrossHair state space is
active (replay mode), so harness code can be written once.
"""
import sys
import time

import z3

import crosshair.core_and_libs  # noqa: F401  (registers the library patches)
from crosshair import core as _core
from crosshair import statespace as _ss
from crosshair.libimpl import builtinslib as B
from crosshair.statespace import context_statespace, optional_context_statespace
from crosshair.tracers import NoTracing, ResumedTracing, is_tracing
from crosshair.util import IgnoreAttempt

SymbolicInt = B.SymbolicInt
SymbolicBool = B.SymbolicBool

# --------------------------------------------------------------------------
# counters (reported in the evidence; -v logging is 15-20x slower, DESIGN 2.4)

COUNTERS = {
    'solver_queries': 0,
    'solver_seconds': 0.0,
    'solver_unknown': 0,
    'realizations': 0,
    'fresh_vars': 0,
    'forks': 0,
}
REALIZED_TERMS = {}  # str(term) -> count (capped)

_orig_solver_is_sat = _ss.solver_is_sat


def _counting_solver_is_sat(solver, *exprs):
    t0 = time.perf_counter()
    COUNTERS['solver_queries'] += 1
    try:
        return _orig_solver_is_sat(solver, *exprs)
    except BaseException as e:
        if type(e).__name__ == 'UnknownSatisfiability':
            COUNTERS['solver_unknown'] += 1
        raise
    finally:
        COUNTERS['solver_seconds'] += time.perf_counter() - t0


_ss.solver_is_sat = _counting_solver_is_sat

_orig_find_model_value = _ss.StateSpace.find_model_value


def _counting_find_model_value(self, expr, *a, **kw):
    COUNTERS['realizations'] += 1
    if len(REALIZED_TERMS) < 200:
        k = str(expr)[:80]
        REALIZED_TERMS[k] = REALIZED_TERMS.get(k, 0) + 1
    return _orig_find_model_value(self, expr, *a, **kw)


_ss.StateSpace.find_model_value = _counting_find_model_value


# --------------------------------------------------------------------------
# basic helpers

def active():
    return optional_context_statespace() is not None


def is_sym(x):
    # under tracing CrossHair makes isinstance()/type() see symbolics as plain ints
    with NoTracing():
        return isinstance(x, (SymbolicInt, SymbolicBool))


def unwrap(x):
    """python int/bool or CrossHair symbolic -> python int or z3 Int expr."""
    with NoTracing():
        if type(x) is bool:
            return int(x)
        if type(x) is int:
            return x
        if isinstance(x, SymbolicBool):
            return z3.If(x.var, z3.IntVal(1), z3.IntVal(0))
        if isinstance(x, SymbolicInt):
            return x.var
        if isinstance(x, z3.ExprRef):
            return x
        if isinstance(x, FInt):
            return unwrap(x.num)
        raise TypeError('cannot unwrap %r' % type(x))


def wrap(e):
    """python int or z3 Int expr -> python int or SymbolicInt."""
    if isinstance(e, z3.ExprRef):
        with NoTracing():
            if z3.is_int_value(e):
                return e.as_long()
            return SymbolicInt(e)
    return e


def wrap_bool(e):
    if isinstance(e, z3.ExprRef):
        with NoTracing():
            if z3.is_true(e):
                return True
            if z3.is_false(e):
                return False
            return SymbolicBool(e)
    return bool(e)


def fresh_int(name, lo=None, hi=None):
    """A new solver integer (z3 expr), constrained to lo..hi."""
    with NoTracing():
        space = context_statespace()
        v = z3.Int(name)
        COUNTERS['fresh_vars'] += 1
        if lo is not None:
            space.add(v >= lo)
        if hi is not None:
            space.add(v <= hi)
        return v


def add(expr):
    with NoTracing():
        context_statespace().add(expr)


def fork(expr):
    """Decide a z3 Bool on this path (explores both sides over the run)."""
    with NoTracing():
        if isinstance(expr, bool):
            return expr
        expr = z3.simplify(expr)
        if z3.is_true(expr):
            return True
        if z3.is_false(expr):
            return False
        COUNTERS['forks'] += 1
        return context_statespace().choose_possible(expr)


def prune():
    """Abandon this path: it lies outside the harness's stated bound."""
    raise IgnoreAttempt('pruned')


def concretize(e, lo, hi):
    """Fork on the value of integer term e over lo..hi; prune anything else."""
    if not isinstance(e, z3.ExprRef):
        if not (lo <= e <= hi):
            prune()
        return e
    for c in range(lo, hi + 1):
        if fork(e == c):
            return c
    prune()


def model_value(e):
    """Realise a term on the current path (used only to report counterexamples)."""
    if not isinstance(e, z3.ExprRef):
        return e
    with NoTracing():
        return _orig_find_model_value(context_statespace(), e)


def realize_any(x):
    with NoTracing():
        if isinstance(x, (SymbolicInt, SymbolicBool)):
            v = model_value(x.var)
            return bool(v) if isinstance(x, SymbolicBool) else v
        if isinstance(x, Quot):
            return realize_any(x.num) / x.den
        if isinstance(x, FInt):
            return realize_any(x.num)
        if isinstance(x, z3.ExprRef):
            return model_value(x)
        if isinstance(x, (list, tuple)):
            return type(x)(realize_any(i) for i in x)
        if isinstance(x, dict):
            return {k: realize_any(v) for k, v in x.items()}
        if hasattr(x, '__realize_record__'):
            return x.__realize_record__()
        if type(x) in (int, str, float, bool, bytes, type(None)):
            return x
        try:
            return _core.deep_realize(x)
        except Exception:
            return repr(x)


# --------------------------------------------------------------------------
# format tokens (DESIGN 2.4)

TOKENS = []
PATH_SERIAL = [0]   # per-path counter for auxiliary variable names (names must repeat identically on every path)


def reset_path():
    del TOKENS[:]
    PATH_SERIAL[0] = 0


def path_serial():
    PATH_SERIAL[0] += 1
    return PATH_SERIAL[0]


def token_for(x):
    TOKENS.append(x)
    return '<#%d>' % (len(TOKENS) - 1)


def resolve_token(s):
    """'<#k>' -> the registered object; anything else -> None."""
    if s.startswith('<#') and s.endswith('>'):
        try:
            return TOKENS[int(s[2:-1])]
        except (ValueError, IndexError):
            return None
    return None


class _Tok(object):
    __slots__ = ('tok',)

    def __init__(self, x):
        self.tok = token_for(x)

    def __format__(self, spec):
        return self.tok

    def __repr__(self):
        return self.tok

    __str__ = __repr__


_TOKENISED = (SymbolicInt, SymbolicBool)


def _tokenisable(x):
    return isinstance(x, _TOKENISED) or isinstance(x, (Quot, FInt, SymSeq))


_orig_format_patch = _core._PATCH_REGISTRATIONS.get(format)
_orig_str_format_patch = _core._PATCH_REGISTRATIONS.get(str.format)


def _format_patch(obj, format_spec=''):
    with NoTracing():
        if _tokenisable(obj):
            return token_for(obj)
        if type(obj) in (int, str, float, bool, bytes, type(None)) and type(format_spec) is str:
            return format(obj, format_spec)
    return _orig_format_patch(obj, format_spec)


def _contains_sym(x, depth=0):
    if _tokenisable(x):
        return True
    if depth > 6:
        return False
    if type(x) in (list, tuple):
        return any(_contains_sym(i, depth + 1) for i in x)
    if type(x) is dict:
        return any(_contains_sym(i, depth + 1) for i in x.values())
    return False


def _prep(x):
    if type(x) in _FAST_TYPES:
        return x
    if _contains_sym(x):
        return _Tok(x)
    return x


def _str_format_patch(self, /, *a, **kw):
    # All formatting runs natively: symbolic arguments (also inside containers)
    # are rendered as tokens, so nothing is realised and nothing is traced.
    with NoTracing():
        if type(self) is str:
            a2 = tuple(_prep(x) for x in a)
            kw2 = {k: _prep(x) for k, x in kw.items()}
            return str.format(self, *a2, **kw2)
    return _orig_str_format_patch(self, *a, **kw)


_FAST_TYPES = (int, str, float, bool, bytes, type(None), _Tok)


def install_format_patches():
    _core._PATCH_REGISTRATIONS[format] = _format_patch
    _core._PATCH_REGISTRATIONS[str.format] = _str_format_patch


# --------------------------------------------------------------------------
# Quot / FInt (DESIGN 2.3)

class Opaque(object):
    """A number the abstraction cannot express; equal to nothing (replay decides)."""

    def __init__(self, why):
        self.why = why

    def __eq__(self, other):
        return False

    def __ne__(self, other):
        return True

    __hash__ = None

    def __repr__(self):
        return 'Opaque(%s)' % self.why


class Quot(object):
    """num / den with a solver integer numerator and a concrete double denominator."""
    __slots__ = ('num', 'den')

    def __init__(self, num, den):
        self.num = num
        self.den = den

    def __eq__(self, other):
        if isinstance(other, Quot):
            return self.den == other.den and self.num == other.num
        return False

    def __ne__(self, other):
        return not self.__eq__(other)

    __hash__ = None

    def __mul__(self, other):
        if type(other) is float and other == self.den:
            return FInt(self.num)
        return Opaque('Quot(den=%r) * %r' % (self.den, other))

    def __repr__(self):
        return 'Quot(%r, %r)' % (self.num, self.den)

    def __realize_record__(self):
        return realize_any(self.num) / self.den


class FInt(object):
    """A double known to be fl(fl(n/den)*den) for the integer n (lemma L1: rounds to n)."""
    __slots__ = ('num',)

    def __init__(self, num):
        self.num = num

    def __round__(self, ndigits=None):
        return self.num

    def __eq__(self, other):
        return isinstance(other, FInt) and self.num == other.num

    __hash__ = None

    def __repr__(self):
        return 'FInt(%r)' % (self.num,)


_orig_truediv = SymbolicInt.__truediv__


def _truediv(self, other):
    if type(other) is float:
        return Quot(self, other)
    return _orig_truediv(self, other)


def install_quot():
    SymbolicInt.__truediv__ = _truediv


def scaled(num, den):
    """Oracle helper: value of num/den as the decoder must produce it."""
    if is_sym(num):
        return Quot(num, den)
    return num / den


# --------------------------------------------------------------------------
# SymSeq: opaque symbolic byte strings (lists of byte terms)

class SymSeq(object):
    """
    A bytes-like value whose bytes are solver terms (python ints or z3 exprs).
    Supports just what pybufrkit does with decoded strings: len, slicing,
    concatenation with bytes, equality.
    """
    __slots__ = ('items',)

    def __init__(self, items):
        self.items = list(items)

    def __len__(self):
        return len(self.items)

    def __getitem__(self, i):
        if isinstance(i, slice):
            return SymSeq(self.items[i])
        return wrap(self.items[i])

    def __add__(self, other):
        if isinstance(other, SymSeq):
            return SymSeq(self.items + other.items)
        if isinstance(other, (bytes, bytearray)):
            return SymSeq(self.items + list(other))
        return NotImplemented

    def __radd__(self, other):
        if isinstance(other, (bytes, bytearray)):
            return SymSeq(list(other) + self.items)
        return NotImplemented

    def __eq__(self, other):
        if isinstance(other, (bytes, bytearray)):
            other = SymSeq(list(other))
        if not isinstance(other, SymSeq):
            return False
        if len(self.items) != len(other.items):
            return False
        with NoTracing():
            conj = []
            for a, b in zip(self.items, other.items):
                if isinstance(a, z3.ExprRef) or isinstance(b, z3.ExprRef):
                    conj.append(a == b)
                elif a != b:
                    return False
            if not conj:
                return True
            return fork(z3.And(*conj) if len(conj) > 1 else conj[0])

    def __ne__(self, other):
        return not self.__eq__(other)

    __hash__ = None

    def __repr__(self):
        return 'SymSeq(%d)' % len(self.items)

    def __realize_record__(self):
        return bytes(model_value(i) for i in self.items)


def as_byte_terms(value):
    """bytes / SymSeq -> list of byte terms."""
    if isinstance(value, SymSeq):
        return list(value.items)
    return list(bytes(value))


def install_all():
    install_format_patches()
    install_quot()
